"""C14 — FIFOs, sockets and character devices are recreated as identical nodes.
Proof: XcpProps/C14.lean.  Correspondence (A)+(B), as root: all node kinds, random major/minor, modes, umask
0/022, sole source or inside a tree, fresh or existing destination (file, fifo, link, directory), -n, both
drivers; end state vs `Xcp.specialProgram`; the trace must show no open of the source node."""
import os, shutil, stat
from .. import core, scen

KINDS = ['fifo', 'sock', 'chr', 'blk']


def run(ctx):
    ctx.proofs()
    core.build_repo(); core.build_sup()
    rng = ctx.rng
    n = 80 if ctx.quick else 1200
    with core.Scratch('c14') as root:
        for i in range(n):
            kind = KINDS[i % 4] if i < 8 else rng.choice(['fifo', 'sock', 'chr', 'chr', 'blk'])
            mode = rng.choice([0o644, 0o666, 0o600, 0o777, 0o4755, 0o1777, 0o640, 0, rng.randrange(0o10000)])
            rdev = (rng.choice([1, 5, 10, 136, 254, 4095]), rng.choice([0, 3, 5, 200, 255, 1048575 if rng.random() < 0.3 else 7])) if kind in ('chr', 'blk') else (0, 0)
            if i == 2:
                kind, rdev = 'chr', (1, 3)     # corpus: the repaired defect F2
            umask = rng.choice([0, 0o022])
            intree = rng.random() < 0.5
            destk = rng.choice(['absent', 'absent', 'file', 'fifo', 'link-live', 'link-dangling', 'dir', 'same-kind'])
            if 8 <= i < 18:
                destk = 'absent' if i % 2 else destk
                if i < 12:
                    kind, rdev = 'chr', (0, 0)     # corpus: device number 0:0 (what overlay file systems use as a whiteout) is a device number like any other
                else:
                    kind = ['fifo', 'sock', 'chr'][i % 3]; mode = [0o2660, 0o6711, 0o4750][(i // 3) % 3]; rdev = (1, 7) if kind == 'chr' else (0, 0)      # corpus: set-id bits on nodes
            if i in (3, 6, 7):
                destk = 'same-kind'             # corpus: an existing node of the same type and mode but ANOTHER device number
                if i != 7: kind, rdev = 'chr', (1, 5)
            noclob = rng.random() < 0.25
            if i in (3, 6, 7):
                noclob = False; intree = i == 6           # corpus cases keep their shape whatever the generator draws
            driver = ['parfile', 'parblock'][i % 2]
            for sub in ('S', 'D', 'x'):
                p = os.path.join(root, sub)
                if os.path.isdir(p) and not os.path.islink(p): shutil.rmtree(p, ignore_errors=True)
                elif os.path.lexists(p): os.unlink(p)
            tree = [dict(p='S', k='dir', mode=0o755)]
            nm = 'n' if rng.random() < 0.8 else 'n' * rng.choice([245, 250, 255])        # names up to the 255-byte limit: no room for a suffix
            if intree:
                tree += [dict(p='S/sub', k='dir', mode=0o755), dict(p=f'S/sub/{nm}', k=kind, mode=mode, rdev=rdev), dict(p='S/reg', k='file', mode=0o644, data=[('seg', 10, 1)])]
                src_rel, dst_rel = f'S/sub/{nm}', f'D/sub/{nm}'
                argv = ['-r', '-T', 'S', 'D']
            else:
                tree += [dict(p=f'S/{nm}', k=kind, mode=mode, rdev=rdev)]
                src_rel, dst_rel = f'S/{nm}', f'D/{nm}'
                argv = ['-T', f'S/{nm}', f'D/{nm}']
            if not (intree and destk == 'absent'):
                tree += [dict(p='D', k='dir', mode=0o755)] + ([dict(p='D/sub', k='dir', mode=0o755)] if intree else [])
            if destk == 'file': tree.append(dict(p=dst_rel, k='file', mode=0o600, data=[('seg', 5, 2)]))
            elif destk == 'fifo': tree.append(dict(p=dst_rel, k='fifo', mode=0o600))
            elif destk == 'link-live': tree += [dict(p='x', k='file', mode=0o600, data=[('seg', 5, 3)]), dict(p=dst_rel, k='link', target=root + '/x')]
            elif destk == 'link-dangling': tree.append(dict(p=dst_rel, k='link', target=root + '/nowhere'))
            elif destk == 'dir': tree.append(dict(p=dst_rel, k='dir', mode=0o755))
            elif destk == 'same-kind':
                # what an earlier run left: same type, the mode this run would give, but (for devices) another device number
                if kind == 'sock': destk = 'fifo'; tree.append(dict(p=dst_rel, k='fifo', mode=0o600))
                elif i % 2: tree.append(dict(p=dst_rel, k=kind, mode=mode & ~umask & 0o7777, rdev=(rdev[0], rdev[1] ^ 2) if kind in ('chr', 'blk') else (0, 0), exact_mode=True))
                else:       # the SAME device number (what an earlier run of this very copy left), but another mode: a distinct node, to be replaced
                    wm = mode & ~umask & 0o7777
                    tree.append(dict(p=dst_rel, k=kind, mode=0o600 if wm != 0o600 else 0o640, rdev=rdev, exact_mode=True))
            try:
                scen.materialise(root, tree)
            except OSError as e:
                ctx.count('materialise_failed'); continue
            before_src = os.lstat(f'{root}/{src_rel}')
            argv = ['--driver', driver] + (['-n'] if noclob else []) + rng.choice([[], [], [], ['--no-progress'], ['--fsync'], ['--no-progress', '--reflink=never'], ['-v']]) + argv
            r = scen.run_xcp(root, argv, umask=umask, timeout=30)
            ctx.count(f'kind.{kind}'); ctx.count(f'dest.{destk}'); ctx.count(f'exit.{r.cls}'); ctx.count('noclobber' if noclob else 'clobber'); ctx.count(f'umask.{oct(umask)}')
            ctx.case((kind, mode, rdev, umask, intree, destk, noclob, driver), True,
                     sample=dict(argv=argv, kind=kind, mode=oct(mode), rdev=rdev, umask=oct(umask), dest=destk, exit=r.cls) if i in (2, 5, 17) else None)
            src_abs, dst_abs = f'{root}/{src_rel}', f'{root}/{dst_rel}'
            # never opened for reading
            opened = [e for e in r.trace if e['sys'] in ('openat', 'open') and e.get('path') in (src_abs, src_rel, nm) and e['ret'] >= 0]
            opened += [e for e in r.trace if e['sys'] in ('openat', 'open') and e.get('fdpath') == src_abs]
            if opened:
                ctx.violation(f'case-{i}-opened.json', dict(argv=argv, events=opened[:5]), f'C14: the source {kind} node was opened')
                continue
            if r.cls == 'hang':
                ctx.violation(f'case-{i}-hang.json', dict(argv=argv, kind=kind, dest=destk), f'C14/C07: xcp hung copying a {kind}')
                continue
            if noclob and intree and destk != 'absent':
                # the pre-existing directory D itself collides: the run must fail and leave the entry alone
                if r.cls == '0':
                    ctx.violation(f'case-{i}-noclobber.json', dict(argv=argv, dest=destk), 'C14/C08: collision under --no-clobber but exit 0')
                continue
            dest_exists = destk in ('file', 'fifo', 'link-live', 'dir', 'same-kind')          # Path::exists() follows links
            dest_lexists = destk != 'absent'
            removable = destk != 'dir'
            try:
                st = os.lstat(dst_abs)
            except OSError:
                st = None
            # ---- the property's oracle on the implementation
            bad = None
            if intree and r.cls == '0' and destk == 'absent':
                for dd in ('D', 'D/sub'):
                    dm = stat.S_IMODE(os.lstat(f'{root}/{dd}').st_mode)
                    if dm != (0o777 & ~umask):
                        bad = f'directory {dd} created beside the node has mode {oct(dm)}, not 0777 & ~umask'
            want_mode = mode & ~umask & 0o7777
            fmt = {'fifo': stat.S_IFIFO, 'sock': stat.S_IFSOCK, 'chr': stat.S_IFCHR, 'blk': stat.S_IFBLK}[kind]
            if bad:
                pass
            elif kind == 'blk':
                if r.cls == '0': bad = 'a block device did not make the run fail'
            elif r.cls == '0':
                if st is None or stat.S_IFMT(st.st_mode) != fmt: bad = f'destination is not a {kind}'
                elif kind == 'chr' and st.st_rdev != os.makedev(*rdev): bad = f'device number {os.major(st.st_rdev)}:{os.minor(st.st_rdev)} != {rdev[0]}:{rdev[1]}'
                elif stat.S_IMODE(st.st_mode) != want_mode: bad = f'mode {oct(stat.S_IMODE(st.st_mode))} != {oct(mode)} & ~{oct(umask)}'
                elif noclob and dest_lexists: bad = 'existing entry replaced although --no-clobber is set'
            else:
                if not dest_lexists: bad = f'copy of a {kind} to a fresh destination failed: {r.stderr.strip()[-150:]}'
                elif not noclob and dest_exists and removable: bad = f'existing {destk} not replaced: {r.stderr.strip()[-150:]}'
            if noclob and dest_lexists and r.cls == '0':
                bad = bad or 'collision under --no-clobber but exit 0'
            if bad:
                ctx.violation(f'case-{i}.json', dict(argv=argv, kind=kind, mode=oct(mode), rdev=rdev, umask=oct(umask), dest=destk, exit=r.cls, stderr=r.stderr[-500:], oracle=bad), f'C14: {bad}')
                continue
            # ---- correspondence with the model (the walker's own no-clobber check uses lstat after the fix)
            if kind != 'blk' and not (noclob and dest_lexists):
                m = core.ask(core.MODEL, [f"node {kind} {mode} {os.makedev(*rdev) if kind == 'chr' else 0} {umask} 0 {1 if dest_exists else 0} {1 if removable else 0}"])[0]
                ctx.cov['traces_validated_against_impl'] += 1
                if destk == 'link-dangling':
                    expect_ok = False           # exists() is false, mknod then answers EEXIST
                else:
                    expect_ok = m.startswith('ok')
                obs_ok = r.cls == '0'
                good = expect_ok == obs_ok
                if good and obs_ok:
                    mk, mm, mr = m.split('|')[1].split()
                    good = int(mm) == stat.S_IMODE(st.st_mode) and (kind != 'chr' or int(mr) == st.st_rdev)
                    unl = [e for e in r.trace if e['sys'] in ('unlink', 'unlinkat') and e.get('path') in (dst_abs, dst_rel)]
                    good = good and (('unlink' in m) == bool(unl))
                if not good:
                    ctx.cov['disagreements_checked'] += 1
                    ctx.violation(f'case-{i}-corr.json', dict(argv=argv, kind=kind, dest=destk, model=m, exit=r.cls, stderr=r.stderr[-300:], correspondence='Operation::Special + copy_node vs Xcp.specialProgram'),
                                  f'model/implementation disagree on a {kind} onto {destk}: model {m!r}, exit {r.cls}', no_input=True)
        # ---- the node cannot be created (mknod refused: no CAP_MKNOD, a file system without device nodes): the run FAILS — a
        # missing node with exit 0 is not a copy
        for i2 in range(8 if ctx.quick else 40):
            kind = ['chr', 'fifo', 'sock', 'chr'][i2 % 4]; driver = ['parfile', 'parblock'][(i2 // 4) % 2]
            for sub in ('S', 'D', 'x'):
                p = os.path.join(root, sub)
                if os.path.isdir(p) and not os.path.islink(p): shutil.rmtree(p, ignore_errors=True)
                elif os.path.lexists(p): os.unlink(p)
            tree = [dict(p='S', k='dir', mode=0o755), dict(p='S/n', k=kind, mode=0o644, rdev=(1, 3) if kind == 'chr' else (0, 0)), dict(p='S/reg', k='file', mode=0o644, data=[('seg', 10, 1)])]
            prior = i2 % 3 == 0
            if prior:
                tree += [dict(p='D', k='dir', mode=0o755), dict(p='D/n', k='file', mode=0o600, data=[('seg', 5, 2)])]
            scen.materialise(root, tree)
            en = rng.choice(['EPERM', 'EPERM', 'EACCES', 'ENOSPC'])
            plan = [f'fail mknodat * 1 {scen.ERRNO[en]}']
            argv = ['--driver', driver, '-r', '-T', 'S', 'D']
            r = scen.run_xcp(root, argv, umask=0o022, timeout=30, plan=plan, trace=True)
            fired = any(e.get('inj') for e in r.trace)
            ctx.count(f'mknod_refused.{"fired" if fired else "not_fired"}.{r.cls}'); ctx.case(('mknod-refused', kind, driver, en, prior), fired)
            if fired and r.cls == '0':
                ctx.violation(f'mknod-refused-{i2}.json', dict(argv=argv, plan=plan, kind=kind, prior_entry=prior), f'C14: mknod was refused ({en}) for a {kind} but xcp exited 0: the node is missing at the destination ({driver})')
        # ---- nodes created while OTHER threads finish regular files under --no-perms: whatever those threads do to find out the
        # default mode, a node's mode is still the source's bits limited by the umask
        for driver in ('parfile', 'parblock'):
            for sub in ('S', 'D', 'x'):
                p = os.path.join(root, sub)
                if os.path.isdir(p) and not os.path.islink(p): shutil.rmtree(p, ignore_errors=True)
                elif os.path.lexists(p): os.unlink(p)
            tree = [dict(p='S', k='dir', mode=0o755)]
            for j in range(6):
                tree.append(dict(p=f'S/d{j}', k='dir', mode=0o755))
                for k in range(5):
                    tree.append(dict(p=f'S/d{j}/p{k}', k='fifo', mode=0o666))
                for k in range(20 if ctx.quick else 60):
                    tree.append(dict(p=f'S/d{j}/f{k}', k='file', mode=0o600, data=[('seg', 10, j * 100 + k + 1)]))
            scen.materialise(root, tree)
            for plan in ([], ['stall umask 150000'], ['stall umask 50000', 'stall mknodat 50000']):
                shutil.rmtree(root + '/D', ignore_errors=True)
                argv = ['-r', '-T', '--no-perms', '--driver', driver, '--workers', '4', 'S', 'D']
                r = scen.run_xcp(root, argv, umask=0o022, timeout=120, plan=plan or None)
                ctx.count(f'noperms_nodes.exit.{r.cls}'); ctx.case(('noperms-nodes', driver, tuple(plan)), True)
                wrong = []
                for dp, dn, fn in os.walk(root + '/D'):
                    for f in fn:
                        st = os.lstat(os.path.join(dp, f))
                        if stat.S_ISFIFO(st.st_mode) and stat.S_IMODE(st.st_mode) != 0o644:
                            wrong.append((os.path.join(dp, f)[len(root):], oct(stat.S_IMODE(st.st_mode))))
                if r.cls != '0':
                    ctx.violation(f'noperms-nodes-{driver}-exit.json', dict(argv=argv, plan=plan, stderr=r.stderr[-300:]), 'copy of a tree with FIFOs under --no-perms failed', no_input=True)
                elif wrong:
                    ctx.violation(f'noperms-nodes-{driver}-{len(plan)}.json', dict(argv=argv, plan=plan, umask='0o22', source_mode='0o666', wrong=wrong[:10], count=len(wrong)),
                                  f'C14: {len(wrong)} FIFOs have mode {wrong[0][1]}, not 0666 & ~022, when copied next to regular files under --no-perms ({driver}, plan {plan})')
        # ---- --no-clobber and an entry that appears AFTER the walker's probe (two sources with one base name: the first creates
        # out/x while the second is already queued): whoever creates out/x first, it is never unlinked or replaced
        for driver in ('parfile', 'parblock'):
            for plan in ([], ['stallp mknodat * 300000'], ['stall mknodat 200000', 'sched 5 delay 2']):
                for sub in ('S', 'D', 'x'):
                    p = os.path.join(root, sub)
                    if os.path.isdir(p) and not os.path.islink(p): shutil.rmtree(p, ignore_errors=True)
                    elif os.path.lexists(p): os.unlink(p)
                scen.materialise(root, [dict(p='S', k='dir', mode=0o755), dict(p='S/a', k='dir', mode=0o755), dict(p='S/b', k='dir', mode=0o755), dict(p='D', k='dir', mode=0o755),
                                        dict(p='S/a/x', k='chr', mode=0o644, rdev=(1, 3)), dict(p='S/b/x', k='fifo', mode=0o600)])
                argv = ['--driver', driver, '-w', '1', '--no-clobber', 'S/a/x', 'S/b/x', 'D']
                r = scen.run_xcp(root, argv, umask=0o022, timeout=30, plan=plan or None, trace=True)
                ctx.count(f'noclobber_race.exit.{r.cls}'); ctx.case(('noclobber-race', driver, tuple(plan)), True)
                unl = [e for e in r.trace if e['sys'] in ('unlink', 'unlinkat') and e['ret'] == 0 and (e.get('path') or '').endswith('D/x')]
                mk = [e for e in r.trace if e['sys'] == 'mknodat' and e['ret'] == 0 and (e.get('path') or '').endswith('D/x')]
                if unl or len(mk) > 1:
                    ctx.violation(f'noclobber-race-{driver}-{len(plan)}.json', dict(argv=argv, plan=plan, exit=r.cls, unlinks=len(unl), mknods=len(mk), stderr=r.stderr[-300:]),
                                  f'C14: under --no-clobber the entry D/x, created during this run by the first source, was removed/replaced by the second ({driver}, plan {plan}, exit {r.cls})')
    ctx.cov['rule'] = ('kind {fifo, socket, chr, blk} x mode (incl. set-id/sticky) x major/minor x umask {0, 022} x sole source / inside a tree x destination '
                       '{absent, file, fifo, live link, dangling link, directory, node of the same type and mode with another device number} x -n x driver; two sources with one base name under -n; FIFOs next to regular files under --no-perms with stalled umask(2). distinct = distinct tuple')
    ctx.assumptions += ['runs as root with CAP_MKNOD']


def replay(ctx, path):
    run(ctx)
