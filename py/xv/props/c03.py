"""C03 — sources and bystander files are never modified, even by self-copies or kills.
Proof: XcpProps/C03.lean.  Correspondence (A)+(B): every alias relation between a source and its mapped destination
(./f, dir/../f, the file's own directory, symbolic link, hard link, directory aliases) x position among other
sources x driver; a SIGKILL before/after each mutating call; a single injected failure at each mutating call;
oracle: content, kind, mode, owner, mtime, xattrs, link count of every source and bystander before/after."""
import os
from .. import core, scen, treerun

E = scen.ERRNO
FIELDS = ('kind', 'mode', 'uid', 'gid', 'size', 'hash', 'mtime', 'ctime', 'target', 'rdev', 'xattr', 'nlink')      # ctime: ANY change of the inode (a chmod back and forth, a re-set timestamp) shows


def protected_diff(before, after, skip_prefixes):
    out = []
    for p, v in before.items():
        if any(p == s or p.startswith(s + b'/') for s in skip_prefixes):
            continue
        w = after.get(p)
        if w is None:
            out.append(f'{p!r} disappeared'); continue
        for f in FIELDS:
            if f in ('mtime', 'ctime', 'nlink', 'size') and v['kind'] == 'dir':
                continue
            if v.get(f) != w.get(f):
                out.append(f'{p!r}: {f} {v.get(f)} -> {w.get(f)}')
    return out


def alias_scenarios():
    out = []
    for driver in ('parfile', 'parblock'):
        def mk():
            sc = treerun.Scn(); sc.driver = driver
            sc.d(b'/W').d(b'/X').f(b'/X/bystander').f(b'/W/f').f(b'/W/other').d(b'/W/d').f(b'/W/d/m').d(b'/W/d/sub').f(b'/W/d/sub/n').s(b'/W/d/sub/fifo', 'fifo').l(b'/W/d/sub/lnk', b'n').l(b'/W/d/toplnk', b'm')
            sc.d(b'/W/OUT')
            return sc
        for pos in (0, 1):
            pre = [b'other'] if pos == 1 else []
            sc = mk(); sc.paths = pre + [b'f', b'./'] if pre else [b'f', b'./f']; sc.alias = 'other-spelling ./f' if not pre else "file's own directory, after another source"; out.append(sc)
            sc = mk(); sc.paths = pre + [b'd/m', b'd/'] ; sc.alias = "the file's own directory"; out.append(sc)
            sc = mk(); sc.l(b'/W/lf', b'f'); sc.paths = [b'f', b'lf'] ; sc.opts = ['T'] if pos else []; sc.alias = 'destination is a symbolic link to the source'; out.append(sc)
            sc = mk(); sc.h(b'/W/hf', b'/W/f'); sc.paths = [b'f', b'hf']; sc.opts = ['T'] if pos else []; sc.alias = 'destination is a hard link of the source'; out.append(sc)
            sc = mk(); sc.paths = [b'd/m', b'd/sub/../m']; sc.alias = 'dir/../f spelling'; out.append(sc)
            sc = mk(); sc.l(b'/W/OUT/d', b'../d'); sc.opts = ['r']; sc.paths = pre + [b'd', b'OUT']; sc.alias = 'target directory entry is a symbolic link to the source directory'; out.append(sc)
            sc = mk(); sc.l(b'/W/dl', b'/W/d'); sc.opts = ['r', 'T']; sc.paths = [b'dl', b'd']; sc.alias = 'source is an absolute symbolic link to the destination directory'; out.append(sc)
            sc = mk(); sc.d(b'/W/OUT/d'); sc.l(b'/W/OUT/d/sub', b'../../d/sub'); sc.opts = ['r']; sc.paths = pre + [b'd', b'OUT']; sc.alias = 'a sub-directory of the target is a symbolic link back into the source'; out.append(sc)
            sc = mk(); sc.opts = ['r']; sc.paths = pre + [b'd', b'd/..']; sc.alias = 'directory onto itself through ..'; out.append(sc)
            # a hard-link snapshot of the source tree as destination (cp -al d OUT/; xcp -r d OUT): nested hard links
            sc = mk(); sc.d(b'/W/OUT/d').h(b'/W/OUT/d/m', b'/W/d/m').d(b'/W/OUT/d/sub').h(b'/W/OUT/d/sub/n', b'/W/d/sub/n'); sc.opts = ['r']; sc.paths = pre + [b'd', b'OUT']
            sc.alias = 'nested destination entries are hard links of the source files'; out.append(sc)
            sc = mk(); sc.d(b'/W/OUT/d').l(b'/W/OUT/d/m', b'../../d/m'); sc.opts = ['r']; sc.paths = pre + [b'd', b'OUT']; sc.alias = 'a nested destination entry is a symbolic link to the source file'; out.append(sc)
            sc = mk(); sc.opts = ['r']; sc.paths = pre + [b'd/sub/fifo', b'd/sub/']; sc.alias = 'special file into its own directory'; out.append(sc)
    # the same aliases with --backup: a backup is a RENAME of the destination entry — when that entry is the source itself it
    # must not be renamed away either
    import copy
    for sc in list(out):
        if sc.alias.startswith(('a sub-directory of the target', 'a nested destination entry', 'target directory entry is a symbolic link', 'nested destination entries are hard links', 'destination is a')):
            for mode in ('numbered', 'auto'):
                s2 = copy.deepcopy(sc); s2.extra = list(s2.extra) + [f'--backup={mode}']; s2.alias = sc.alias + f', --backup={mode}'; s2.no_model = True
                out.append(s2)
    # with --glob only the SOURCES are patterns: a destination whose name contains pattern characters is that name, not whatever
    # bystander happens to match it
    for driver in ('parfile', 'parblock'):
        sc = treerun.Scn(); sc.driver = driver
        sc.d(b'/W').d(b'/W/src').f(b'/W/src/a.txt').f(b'/W/src/b.txt').d(b'/W/v1').f(b'/W/v1/a.txt').f(b'/W/v1/notes').d(b'/W/v[1]').d(b'/W/w?').d(b'/W/wx').f(b'/W/wx/a.txt')
        sc.opts = ['glob']; sc.paths = [b'src/*.txt', b'v[1]']; sc.alias = 'glob: destination name with pattern characters next to a bystander it matches'; sc.no_model = True
        sc.allowed = [b'W/v[1]']
        out.append(sc)
        s2 = copy.deepcopy(sc); s2.paths = [b'src/*.txt', b'w?']; s2.allowed = [b'W/w?']; out.append(s2)
    return out


def valid_scenario(driver):
    sc = treerun.Scn(); sc.driver = driver
    sc.d(b'/W').d(b'/X').f(b'/X/bystander').d(b'/W/S').f(b'/W/S/a').d(b'/W/S/sub').f(b'/W/S/sub/b').l(b'/W/S/l', b'a').s(b'/W/S/sub/fifo', 'fifo')
    sc.l(b'/W/S/labs', b'/X/bystander').l(b'/W/S/sub/lsrc', b'/W/S/a').l(b'/W/S/ldir', b'/X')      # links whose text resolves, from the destination too, to a bystander / a source / a directory outside
    sc.d(b'/W/DEST').f(b'/W/DEST/keep').d(b'/W/DEST/S').f(b'/W/DEST/S/a')
    sc.opts = ['r']; sc.paths = [b'S', b'DEST']
    return sc


def run(ctx):
    ctx.proofs()
    core.build_repo(); core.build_sup()
    rng = ctx.rng
    with core.Scratch('c03') as base:
        # ---- (a) alias relations
        scs = alias_scenarios()
        reqs, metas = [], []
        for i, sc in enumerate(scs):
            root = base + '/R'
            import subprocess
            subprocess.run(f'rm -rf {root}', shell=True); os.makedirs(root)
            treerun.materialise(root, sc)
            before = scen.snapshot(root)
            argv = treerun.argv(root, sc)
            os.makedirs(base + '/aux', exist_ok=True)
            r = scen.run_xcp(base + '/aux', argv, cwd=treerun.real(root, sc.cwd), timeout=30)
            after = scen.snapshot(root)
            ctx.count('alias.' + sc.alias.split(',')[0][:40]); ctx.count(f'exit.{r.cls}')
            ctx.case(('alias', sc.alias, tuple(sc.paths), sc.driver), True, sample=dict(alias=sc.alias, argv=[x.decode() if isinstance(x, bytes) else x for x in argv], exit=r.cls) if i in (0, 3) else None)
            # everything that existed is protected here: the only legitimate effect of these invocations is to create NEW entries
            diff = protected_diff(before, after, getattr(sc, 'allowed', []))
            if r.cls == 'hang':
                diff.append('hung')
            if diff:
                ctx.violation(f'alias-{i}.json', dict(alias=sc.alias, argv=[repr(x) for x in argv], exit=r.cls, stderr=r.stderr[-300:], diff=diff[:10]),
                              f'C03: self-copy through "{sc.alias}" modified an existing object: {diff[0]}')
                continue
            if not getattr(sc, 'no_model', False):
                reqs.append(treerun.model_request(root, sc)); metas.append((i, sc, r, treerun.snapshot_tokens(root, sc)))
        for (i, sc, r, toks), a in zip(metas, core.ask(core.MODEL, reqs)):
            ex, rej, mt = treerun.model_snapshot(a)
            ctx.cov['traces_validated_against_impl'] += 1
            impl_ex = 'ok' if r.cls == '0' else 'err'
            if ex != impl_ex or (ex == 'ok' and mt != toks):
                ctx.cov['disagreements_checked'] += 1
                ctx.violation(f'alias-{i}-corr.json', dict(alias=sc.alias, model=a[:300], impl=r.cls, stderr=r.stderr[-300:], correspondence='alias handling vs Xcp.validate / same-file guard in Xcp.execOp',
                                                           theorems=['Xcp.C03.self_copy_refused', 'Xcp.C03.self_copy_rejected_up_front']),
                              f'model/implementation disagree on the alias case "{sc.alias}" (impl {r.cls}, model {ex} reject={rej})', no_input=True)
        # ---- (b) kills and (c) faults at every mutating call of a valid copy
        for driver in ('parfile', 'parblock'):
            sc = valid_scenario(driver)
            o = treerun.run(base, sc, trace=True)
            total = o.res.final.get('mut_total', 0)
            muts = [e for e in o.res.trace if e.get('mut')]
            plans = []
            ks = range(1, total + 1) if (total <= 40 or not ctx.quick) else sorted(rng.sample(range(1, total + 1), 40))
            for k in ks:
                plans.append((f'killbefore {k}', [f'killbefore {k}']))
                plans.append((f'killafter {k}', [f'killafter {k}']))
            seen = {}
            for e in muts:
                key = (e['sys'], (e.get('path') or e.get('fdpath') or '').split('/')[-1])
                seen[key] = seen.get(key, 0) + 1
                sysn = 'ioctl' if e['sys'] == 'ficlone' else e['sys']
                for en in (('EIO', 'ENOSPC') if ctx.quick else ('EIO', 'ENOSPC', 'EACCES', 'EMFILE', 'EROFS', 'EPERM')):
                    plans.append((f'fail {sysn} {key[1]} #{seen[key]} {en}', [f'fail {sysn} {key[1] or "*"} {seen[key]} {E[en]}']))
            for name, plan in plans:
                root = base + '/R'
                import subprocess
                subprocess.run(f'rm -rf {root}', shell=True); os.makedirs(root)
                treerun.materialise(root, sc)
                before = scen.snapshot(root)
                r = scen.run_xcp(base + '/aux', treerun.argv(root, sc), cwd=treerun.real(root, sc.cwd), plan=plan, timeout=30)
                after = scen.snapshot(root)
                kind = name.split()[0]
                ctx.count(f'plan.{kind}'); ctx.count(f'exit.{r.cls}')
                ctx.case((driver, name), True, sample=dict(driver=driver, plan=plan, exit=r.cls) if name in ('killafter 3', 'killbefore 5') else None)
                # the destination paths this invocation maps to: DEST/S and below; everything else is protected
                diff = protected_diff(before, after, [b'W/DEST/S'])
                if r.cls == 'hang':
                    diff.append('hung')
                if diff:
                    ctx.violation(f'{driver}-{name.replace(" ", "_").replace("#", "n")}.json', dict(driver=driver, plan=plan, exit=r.cls, stderr=r.stderr[-300:], diff=diff[:10]),
                                  f'C03: with plan {plan} a source or bystander changed: {diff[0]}')
        # ---- (d) the alias scenarios again, with each of the run's PROBES (stat family: not a mutating call) failing once: a
        # probe that cannot be answered must never be read as "different file" / "absent" in a way that destroys a source
        import subprocess
        probe_scs = [sc for sc in alias_scenarios() if sc.alias.startswith(('a sub-directory of the target', 'a nested destination entry is a symbolic link', 'special file into', 'target directory entry is a symbolic link'))]
        for i, sc in enumerate(probe_scs if not ctx.quick else probe_scs[:8]):
            root = base + '/R'
            subprocess.run(f'rm -rf {root}', shell=True); os.makedirs(root)
            treerun.materialise(root, sc)
            argv = treerun.argv(root, sc)
            r0 = scen.run_xcp(base + '/aux', argv, cwd=treerun.real(root, sc.cwd), timeout=30, trace=True)
            nstat = {}
            for e in r0.trace:
                if e['sys'] in ('statx', 'newfstatat', 'lstat', 'stat'):
                    nstat[e['sys']] = nstat.get(e['sys'], 0) + 1
            targets = [(sysn, '*', k) for sysn, cnt in nstat.items() for k in range(1, min(cnt, 10 if ctx.quick else 40) + 1)]
            # … and the probes of the aliased entries' own paths, one by one (the same-file tests stat source and destination): this is
            # how the repaired defect F20 shows — exists() read a failing stat as 'absent' and the source was truncated through the link
            targets += [(sysn, nm, k) for sysn in nstat for nm in ('fifo', 'lnk', 'sub', '/m', '/n') for k in range(1, 7 if ctx.quick else 12)]
            for sysn, pth, k in targets:
                for _once in (1,):
                    subprocess.run(f'rm -rf {root}', shell=True); os.makedirs(root)
                    treerun.materialise(root, sc)
                    before = scen.snapshot(root)
                    plan = [f'fail {sysn} {pth} {k} {E["EIO"]}']
                    r = scen.run_xcp(base + '/aux', argv, cwd=treerun.real(root, sc.cwd), plan=plan, timeout=30)
                    after = scen.snapshot(root)
                    ctx.count('plan.probe-fault'); ctx.count(f'exit.{r.cls}'); ctx.case(('probe-fault', sc.alias, sc.driver, tuple(sc.paths), k, sysn, pth), True)
                    diff = protected_diff(before, after, [])
                    if r.cls == 'hang':
                        diff.append('hung')
                    if diff:
                        ctx.violation(f'probe-{i}-{sysn}-{pth.replace("*", "any")}-{k}.json', dict(alias=sc.alias, argv=[repr(x) for x in argv], plan=plan, exit=r.cls, stderr=r.stderr[-300:], diff=diff[:10]),
                                      f'C03: "{sc.alias}" with the {k}th {sysn} failing (EIO) modified an existing object: {diff[0]}')
        # ---- (e) bystanders that LOOK like backups: an existing `name.~N~` that is a symbolic link or a FIFO is a version too
        for driver in ('parfile', 'parblock'):
            for mode in ('numbered', 'auto'):
                sc = treerun.Scn(); sc.driver = driver
                sc.d(b'/W').d(b'/W/store').f(b'/W/store/v1').d(b'/W/S').f(b'/W/S/f').d(b'/W/D').f(b'/W/D/f').l(b'/W/D/f.~1~', b'../store/v1').s(b'/W/D/f.~2~', 'fifo').f(b'/W/D/other')
                sc.paths = [b'S/f', b'D/f']; sc.extra = [f'--backup={mode}']
                root = base + '/R'
                subprocess.run(f'rm -rf {root}', shell=True); os.makedirs(root)
                treerun.materialise(root, sc)
                before = scen.snapshot(root)
                argv = treerun.argv(root, sc)
                for rep in range(2):            # twice: the second overwrite must not reuse a number either
                    r = scen.run_xcp(base + '/aux', argv, cwd=treerun.real(root, sc.cwd), timeout=30)
                after = scen.snapshot(root)
                ctx.count('plan.backup-lookalike'); ctx.count(f'exit.{r.cls}'); ctx.case(('backup-lookalike', driver, mode), True)
                diff = protected_diff(before, after, [b'W/D/f'])
                if diff:
                    ctx.violation(f'backup-lookalike-{driver}-{mode}.json', dict(argv=[repr(x) for x in argv], exit=r.cls, stderr=r.stderr[-300:], diff=diff[:10]),
                                  f'C03: overwriting D/f with --backup={mode} twice changed a bystander: {diff[0]}')
        # ---- (f) an alias the RUN ITSELF creates: one source holds a link `l` to a file `l` of a LATER source with the same base
        # name; once the link has been recreated in the destination, the later file maps onto it.  The same-file test must
        # hold at the moment the destination is opened (the walker may be far ahead of the workers: first copy stalled)
        for driver, workers in (('parfile', 1), ('parblock', 2), ('parfile', 4)):
            sc = treerun.Scn(); sc.driver = driver; sc.workers = workers
            sc.d(b'/W').d(b'/W/first').f(b'/W/first/big').d(b'/W/p').d(b'/W/p/A').l(b'/W/p/A/l', b'/W/q/A/l').d(b'/W/q').d(b'/W/q/A').f(b'/W/q/A/l').f(b'/W/q/A/other').d(b'/W/dest')
            sc.opts = ['r']; sc.paths = [b'first', b'p/A', b'q/A', b'dest']
            root = base + '/R'
            subprocess.run(f'rm -rf {root}', shell=True); os.makedirs(root)
            treerun.materialise(root, sc)
            before = scen.snapshot(root)
            argv = treerun.argv(root, sc)
            r = scen.run_xcp(base + '/aux', argv, cwd=treerun.real(root, sc.cwd), plan=['stallp openat =first/big 400000'], timeout=60)
            after = scen.snapshot(root)
            ctx.count('plan.alias-created-by-the-run'); ctx.count(f'exit.{r.cls}'); ctx.case(('alias-created-by-the-run', driver, workers), True)
            diff = protected_diff(before, after, [b'W/dest'])
            if diff:
                ctx.violation(f'run-made-alias-{driver}-{workers}.json', dict(argv=[repr(x) for x in argv], exit=r.cls, stderr=r.stderr[-300:], diff=diff[:10]),
                              f'C03: a source file was altered through a link the run itself had created in the destination: {diff[0]}')
        # ---- (g) --ownership with sources owned by somebody else: the SOURCE's owner, group and mode (set-id bits) stay
        for driver in ('parfile', 'parblock'):
            sc = treerun.Scn(); sc.driver = driver
            sc.d(b'/W').d(b'/W/S').f(b'/W/S/a').f(b'/W/S/b').d(b'/W/S/sub').f(b'/W/S/sub/c').d(b'/W/D')
            sc.opts = ['r']; sc.paths = [b'S', b'D']; sc.extra = ['--ownership']
            root = base + '/R'
            subprocess.run(f'rm -rf {root}', shell=True); os.makedirs(root)
            treerun.materialise(root, sc)
            os.chown(root + '/W/S/a', 1234, 2345); os.chmod(root + '/W/S/a', 0o6755)
            os.chown(root + '/W/S/sub/c', 77, 88); os.chmod(root + '/W/S/sub/c', 0o4711)
            before = scen.snapshot(root)
            argv = treerun.argv(root, sc)
            r = scen.run_xcp(base + '/aux', argv, cwd=treerun.real(root, sc.cwd), timeout=30)
            after = scen.snapshot(root)
            ctx.count('plan.foreign-owner-with-ownership'); ctx.count(f'exit.{r.cls}'); ctx.case(('foreign-owner', driver), True)
            diff = protected_diff(before, after, [b'W/D'])
            if diff:
                ctx.violation(f'foreign-owner-{driver}.json', dict(argv=[repr(x) for x in argv], exit=r.cls, stderr=r.stderr[-300:], diff=diff[:10]),
                              f'C03: copying with --ownership changed a SOURCE: {diff[0]}')
        # ---- (h) sources that have NOT BEEN READ since they were last changed (access time older than modification time: every
        # file fresh from an unpack or a build).  Reading them moves the access time, which is the file system's business; the
        # inode itself (change time, and the access time going BACKWARDS) is not for the copier to touch.  Snapshots here do not
        # read file contents (that would be the first read).
        for driver in ('parfile', 'parblock'):
            sc = treerun.Scn(); sc.driver = driver
            sc.d(b'/W').d(b'/W/S').f(b'/W/S/a').f(b'/W/S/b', text=b'B' * 70000).d(b'/W/S/sub').f(b'/W/S/sub/c').d(b'/W/D')
            sc.opts = ['r']; sc.paths = [b'S', b'D']
            root = base + '/R'
            subprocess.run(f'rm -rf {root}', shell=True); os.makedirs(root)
            treerun.materialise(root, sc)
            for nm in ('a', 'b', 'sub/c'):
                st = os.stat(f'{root}/W/S/{nm}'); os.utime(f'{root}/W/S/{nm}', ns=(st.st_mtime_ns - 3 * 86400 * 10 ** 9, st.st_mtime_ns))
            import time; time.sleep(0.02)
            before = scen.snapshot(root, content=False)
            atime0 = {nm: os.stat(f'{root}/W/S/{nm}').st_atime_ns for nm in ('a', 'b', 'sub/c')}
            argv = treerun.argv(root, sc)
            r = scen.run_xcp(base + '/aux', argv, cwd=treerun.real(root, sc.cwd), timeout=30)
            after = scen.snapshot(root, content=False)
            ctx.count('plan.sources-never-read-before'); ctx.count(f'exit.{r.cls}'); ctx.case(('never-read-sources', driver), True)
            diff = protected_diff(before, after, [b'W/D'])
            diff += [f'access time of S/{nm} moved backwards' for nm in atime0 if os.stat(f'{root}/W/S/{nm}').st_atime_ns < atime0[nm]]
            if diff:
                ctx.violation(f'never-read-sources-{driver}.json', dict(argv=[repr(x) for x in argv], exit=r.cls, stderr=r.stderr[-300:], diff=diff[:10]),
                              f'C03: copying sources that had not been read since their last change altered a SOURCE inode: {diff[0]}')
    ctx.cov['rule'] = ('sources with an access time older than their modification time (inode change time compared); alias created by the run itself (link in one source to a file of a later source, first copy stalled); --ownership with foreign-owned set-id sources; alias table (other spelling, own directory, dir/../f, symlink, hard link, directory via symlink, absolute root link, link back into the source, .., special file) x '
                       'position x driver; then for a valid tree copy: SIGKILL before/after every mutating call and EIO/ENOSPC (thorough: 6 errnos) at every mutating call; each stat-family probe of the aliased scenarios failing once; bystanders named like backups (link, FIFO). '
                       'distinct = distinct (scenario, plan)')
    ctx.assumptions += ['SIGKILL leaves exactly the effects of completed calls', 'atime is not compared']


def replay(ctx, path):
    run(ctx)
