"""C04 — no silent failure: a failed step always yields a non-zero exit.
Proof: XcpProps/C04.lean (error plumbing of both drivers and main; partial: finalisation inside Drop — F11).
Correspondence (A): for each scenario the unfaulted trace is taken, then every call of it that the property
counts as a step is re-run with a single injected errno (EIO ENOSPC EACCES EMFILE EROFS EEXIST EPERM as
applicable; pairs in the thorough tier); the model's table (site, driver) -> reported? must predict the exit
class, and the property's own oracle (exit 0 => destination complete and correct) runs on the implementation."""
import os, stat
from .. import core, scen, treerun

E = scen.ERRNO
ERRNOS = ('EIO', 'ENOSPC', 'EACCES', 'EMFILE', 'EROFS', 'EEXIST', 'EPERM')
UNSUP_CLONE = {E['EOPNOTSUPP'], E['EINVAL'], E['EXDEV'], 26}
CFR_FALLBACK = {E['ENOSYS'], E['EPERM'], E['EXDEV']}


def scenario(driver, variant):
    sc = treerun.Scn(); sc.driver = driver; sc.workers = 2
    sc.d(b'/W').d(b'/W/S').f(b'/W/S/a').d(b'/W/S/sub').f(b'/W/S/sub/b', text=b'B' * 5000).l(b'/W/S/l', b'a').s(b'/W/S/sub/fifo', 'fifo').d(b'/W/S/emptyd')
    if variant == 'overwrite':
        sc.d(b'/W/DEST').d(b'/W/DEST/S').f(b'/W/DEST/S/a').d(b'/W/DEST/S/sub').s(b'/W/DEST/S/sub/fifo', 'fifo').d(b'/W/DEST/S/emptyd')
    elif variant == 'into':
        sc.d(b'/W/DEST')
    sc.opts = ['r']
    sc.extra = ['--fsync', '--block-size', '2048'] + (['--ownership'] if variant == 'owner' else [])
    if variant == 'backup':              # overwrite with numbered backups: the rename that makes the backup is a step too
        sc.d(b'/W/DEST').d(b'/W/DEST/S').f(b'/W/DEST/S/a').d(b'/W/DEST/S/sub').f(b'/W/DEST/S/sub/b', text=b'older').d(b'/W/DEST/S/emptyd')
        sc.extra = ['--fsync', '--block-size', '2048', '--backup=numbered']
    if variant == 'noprogress':          # no progress display: errors must still reach the exit status
        sc.extra = ['--fsync', '--no-progress']
    sc.paths = [b'S', b'DEST']
    sc.variant = variant
    return sc


def site_of(e, root, after_data):
    """classify one traced call: which kind of step of the model is it? None = not a step we inject"""
    s = e['sys']
    srcside = (e.get('path') or e.get('fdpath') or '').startswith(root + '/W/S') or (e.get('path') or '').startswith('S')
    dstside = '/W/DEST' in (e.get('path') or e.get('fdpath') or '') or (e.get('path') or '').startswith('DEST')
    if s == 'openat':
        fl = e['a'][2]
        if fl & os.O_DIRECTORY: return 'walkerReaddir'
        if fl & os.O_CREAT: return 'createDst'
        if srcside: return 'openSrc'
        return None
    if s == 'getdents64': return 'walkerReaddir'
    if s == 'readlink': return 'walkerReadlink'
    if s == 'mkdir': return 'walkerMkdir'
    if s == 'ftruncate': return 'truncateDst'
    if s == 'ficlone': return 'cloneHard'
    if s in ('copy_file_range', 'pwrite64', 'write', 'pread64', 'read'): return 'dataCopy' if (dstside or srcside) else None
    if s in ('fsetxattr', 'flistxattr', 'fgetxattr'): return 'finXattr'
    if s == 'fchown': return 'finChown'
    if s == 'fchmod': return 'finChmod'
    if s == 'utimensat': return 'finUtimens'
    if s == 'fsync': return 'finFsync'
    if s == 'symlink': return 'symlink'
    if s in ('unlink', 'unlinkat'): return 'specialUnlink'
    if s in ('mknodat', 'mknod'): return 'specialMknod'
    if s == 'rename': return 'backupRename'
    return None


def correct(sc, o):
    """exit 0 => complete and correct destination (kinds, bytes, link text, modes, mtimes of files)"""
    after = treerun.decode(o.after)
    tb = b'/W/DEST/S' if sc.variant in ('overwrite', 'into', 'backup') else b'/W/DEST'
    for e in sc.entries:
        p = e['p']
        if not p.startswith(b'/W/S'):
            continue
        d = tb + p[len(b'/W/S'):]
        want = 'd' if e['k'] == 'd' else f"f:{e['id']}" if e['k'] == 'f' else f"l:{treerun.hx(e['t'])}" if e['k'] == 'l' else f"s:{e['kind']}:0"
        if after.get(d) != want:
            return f'{d!r} is {after.get(d)}, expected {want}'
        if e['k'] == 'f':
            a, b = os.lstat(o.root.encode() + p), os.lstat(o.root.encode() + d)
            if stat.S_IMODE(a.st_mode) != stat.S_IMODE(b.st_mode):
                return f'{d!r}: permissions {oct(stat.S_IMODE(b.st_mode))} != source {oct(stat.S_IMODE(a.st_mode))}'
            if a.st_mtime_ns != b.st_mtime_ns:
                return f'{d!r}: modification time not applied'
    return None


def run(ctx):
    ctx.proofs()
    core.build_repo(); core.build_sup()
    rng = ctx.rng
    known_sites = {'finChmod': 'F11', 'finUtimens': 'F11', 'finFsync': 'F11', 'finStat': 'F11'}
    sites_hit = {}
    with core.Scratch('c04') as base:
        for driver in ('parfile', 'parblock'):
            for variant in (('fresh', 'overwrite', 'into', 'noprogress', 'backup') if ctx.quick else ('fresh', 'overwrite', 'into', 'owner', 'noprogress', 'backup')):
                sc = scenario(driver, variant)
                o0 = treerun.run(base, sc, trace=True)
                if o0.res.cls != '0' or correct(sc, o0):
                    ctx.violation(f'{driver}-{variant}-base.json', dict(stderr=o0.res.stderr[-500:], why=correct(sc, o0)), 'unfaulted run failed or is incorrect', no_input=True)
                    continue
                # every call of the unfaulted trace that is a step: (syscall, path key, occurrence)
                occ, plans = {}, []
                data_seen = set()
                for e in o0.res.trace:
                    site = site_of(e, o0.root, False)
                    if site is None:
                        continue
                    pathkey = (e.get('path') or e.get('fdpath') or '')
                    key = ('=' + pathkey) if pathkey and ' ' not in pathkey else '*'
                    sysn = 'ioctl' if e['sys'] == 'ficlone' else e['sys']
                    k = (sysn, key)
                    occ[k] = occ.get(k, 0) + 1
                    errs = list(ERRNOS)
                    if ctx.quick:
                        errs = rng.sample(errs, 2) if site != 'walkerMkdir' else list(dict.fromkeys(rng.sample(errs, 2) + ['EEXIST']))
                    for en in errs:
                        if site == 'cloneHard' and E[en] in UNSUP_CLONE: continue
                        if site == 'walkerMkdir' and en == 'EEXIST' and variant != 'fresh': continue      # the natural answer for an EXISTING directory: create_dir_all accepts it
                        if site == 'dataCopy' and e['sys'] == 'copy_file_range' and E[en] in CFR_FALLBACK: continue
                        plans.append((site, [f'fail {sysn} {key} {occ[k]} {E[en]}'], en))
                # a short count followed by a hard error on the retry, inside one block / one copy loop of the multi-block file
                bdst = next((e.get('fdpath') for e in o0.res.trace if e['sys'] == 'copy_file_range' and (e.get('fdpath') or '').endswith('/sub/b')), None)
                if bdst:
                    plans.append(('dataCopy', [f'clamp copy_file_range ={bdst} 0 1 700', f'failo copy_file_range ={bdst} 700 1 {E["ENOSPC"]}'], 'short+ENOSPC'))
                # a failure that PERSISTS (every attempt to create one destination file fails: descriptor exhaustion, a read-only
                # directory): retries, if any, must end in an error, not in silence
                cdst = [e.get('path') for e in o0.res.trace if site_of(e, o0.root, False) == 'createDst' and e.get('path') and ' ' not in e.get('path')]
                for cp in cdst[:2]:
                    for en in ('EMFILE', 'EACCES'):
                        plans.append(('createDst', [f'fail openat ={cp} * {E[en]}'], en + '-persistent'))
                # existence probes of the destination (the repaired defect F12): statx of DEST by main / the walker
                if ctx.quick and variant == 'into':
                    plans = []          # quick: this variant only serves the destination probes
                plans.append(('destProbe', [f'fail statx DEST * {E["EACCES"]}'], 'EACCES'))
                for nth in range(1, 7):
                    plans.append(('destProbe', [f'fail statx =DEST {nth} {E["EACCES"]}'], 'EACCES'))
                if not ctx.quick:
                    pairs = [(a, b) for a in rng.sample(plans, min(25, len(plans))) for b in rng.sample(plans, 2)]
                    plans += [(f'{a[0]}+{b[0]}', a[1] + b[1], f'{a[2]}+{b[2]}') for a, b in pairs]
                reqs, metas = [], []
                for site, plan, en in plans:
                    o = treerun.run(base, sc, plan=plan, trace=True, timeout=40)
                    fired = [e for e in o.res.trace if e.get('inj')]
                    ctx.count(f'site.{site}'); ctx.count(f'errno.{en}'); ctx.count(f'exit.{o.res.cls}'); ctx.count('fired' if fired else 'not_fired')
                    sites_hit[site] = sites_hit.get(site, 0) + (1 if fired else 0)
                    ctx.case((driver, variant, tuple(plan)), nontrivial=bool(fired),
                             sample=dict(driver=driver, variant=variant, site=site, plan=plan, exit=o.res.cls) if len(ctx.cov['samples']) < 5 and fired and site in ('truncateDst', 'finChmod', 'symlink') else None)
                    if not fired:
                        continue
                    if o.res.cls == 'hang':
                        ctx.violation(f'{driver}-{variant}-{site}-{en}-hang.json', dict(plan=plan), f'xcp hung with {plan}')
                        continue
                    # ---- the property's oracle on the implementation: exit 0 => complete and correct
                    sites = site.split('+')
                    if o.res.cls == '0':
                        why = correct(sc, o)
                        if why:
                            # attributable to a recorded finding iff every failed step is a recorded silent site or one of the two
                            # steps the property itself tolerates (xattr, ownership), with at least one recorded site among them
                            tolerated = {'finXattr', 'finChown', 'destProbe'}      # (a probe is not a step: its failure is either reported or harmless — F12 is repaired)
                            kf = [known_sites.get(s) for s in sites if s not in tolerated]
                            if kf and all(kf) and all(ctx.open_finding(k) for k in kf):
                                for k in set(kf):
                                    ctx.known_finding(k, ctx.open_finding(k)['what'])
                                    ctx.cov.setdefault('known_finding_cases', {}).setdefault(k, []).append(dict(driver=driver, variant=variant, plan=plan, incorrect=why)) if len(ctx.cov.get('known_finding_cases', {}).get(k, [])) < 5 else None
                            else:
                                ctx.violation(f'{driver}-{variant}-{site}-{en}.json', dict(driver=driver, variant=variant, site=site, plan=plan, exit=o.res.exit, stderr=o.res.stderr[-400:], incorrect=why),
                                              f'C04: {plan} made a step fail silently: exit 0 but {why}')
                                continue
                    if 'destProbe' in sites:
                        continue        # probes are addressed by count here and only the mapping test is fallible (mapping_probe_failure_is_reported): no exit prediction per count
                    # ---- correspondence: the model's table predicts the exit class
                    metas.append((site, plan, en, o.res.cls, o.res.stderr[-200:]))
                    reqs.append(f"errs {driver} {' '.join(sites)}")
                for (site, plan, en, cls, err), m in zip(metas, core.ask(core.MODEL, reqs) if reqs else []):
                    ctx.cov['traces_validated_against_impl'] += 1
                    pred = m.split()[1] if m.startswith('ok') else '?'
                    obs = 'nonzero' if cls != '0' else 'zero'
                    if pred == 'nonzero' and obs == 'zero':
                        # the property itself: a step it lists as needed failed (the injected call), yet xcp exited 0
                        ctx.violation(f'{driver}-{variant}-{site}-{en}.json', dict(driver=driver, variant=variant, site=site, plan=plan, exit=cls, stderr=err,
                                                                                   statement='a failed step always yields a non-zero exit', theorems=['Xcp.C04.no_silent_failure_partial']),
                                      f'C04: the step {site} failed ({plan}) but xcp exited 0')
                    elif pred != obs:
                        ctx.cov['disagreements_checked'] += 1
                        ctx.violation(f'{driver}-{variant}-{site}-{en}-corr.json', dict(driver=driver, variant=variant, site=site, plan=plan, model=m, exit=cls, stderr=err,
                                                                                        correspondence='exit class under a single injected failure vs Xcp.Errs.exitNonZero', theorems=['Xcp.C04.no_silent_failure_partial']),
                                      f'model predicts exit {pred}, implementation exit {obs} for a failing {site} ({plan})', no_input=True)
        # ---- extent mapping refused (EOPNOTSUPP: tmpfs, FUSE, network file systems) for a sparse source under the block driver:
        # the documented fall-back is to copy the whole file — exit 0 means the bytes are there
        import filecmp, shutil
        from .. import fsutil
        for i in range(2 if ctx.quick else 10):
            d = base + '/sparse'; shutil.rmtree(d, ignore_errors=True); os.makedirs(d)
            fsutil.make_file(d + '/src.bin', 8 << 20, [(0, 300000), (3 << 20, (3 << 20) + 70000)], seed=40 + i)
            for plan in (['fail ioctl fiemap * %d' % E['EOPNOTSUPP']], ['fail ioctl fiemap 1 %d' % E['EOPNOTSUPP']]):
                try: os.unlink(d + '/dst.bin')
                except OSError: pass
                r = scen.run_xcp(d, ['--driver', 'parblock', '--workers', str(rng.choice([1, 4])), '--block-size', rng.choice(['65536', '1MB']), 'src.bin', 'dst.bin'], plan=plan, timeout=60)
                fired = any(e.get('inj') for e in r.trace)
                ctx.count(f'fiemap_refused.{"fired" if fired else "not_fired"}.{r.cls}'); ctx.case(('fiemap-refused', i, tuple(plan)), fired)
                if r.cls == '0' and not (os.path.exists(d + '/dst.bin') and filecmp.cmp(d + '/src.bin', d + '/dst.bin', shallow=False)):
                    ctx.violation(f'fiemap-refused-{i}.json', dict(plan=plan, exit=r.cls, stderr=r.stderr[-300:]),
                                  f'C04: extent mapping was refused ({plan}) and xcp exited 0, but the destination is not a copy of the sparse source')
        # ---- an entry xcp cannot copy (a block device): leaving it out is a failure of that entry — exit 0 only if it is there
        for driver in ('parfile', 'parblock'):
            for shape in ('in-tree', 'sole-source'):
                d = base + '/blk'; shutil.rmtree(d, ignore_errors=True); os.makedirs(d + '/S/sub')
                open(d + '/S/a', 'w').write('a'); open(d + '/S/sub/z', 'w').write('z')
                os.mknod(d + '/S/sub/disk0', stat.S_IFBLK | 0o600, os.makedev(7, 0))
                argv = ['--driver', driver, '-r', 'S', 'D'] if shape == 'in-tree' else ['--driver', driver, 'S/sub/disk0', 'D']
                r = scen.run_xcp(d, argv, timeout=30)
                there = os.path.lexists(d + ('/D/sub/disk0' if shape == 'in-tree' else '/D')) and stat.S_ISBLK(os.lstat(d + ('/D/sub/disk0' if shape == 'in-tree' else '/D')).st_mode)
                ctx.count(f'uncopyable_entry.{shape}.{r.cls}'); ctx.case(('block-device', driver, shape), True)
                if r.cls == '0' and not there:
                    ctx.violation(f'block-device-{driver}-{shape}.json', dict(argv=argv, exit=r.cls, stderr=r.stderr[-300:]),
                                  f'C04: a block device among the sources ({shape}) was not copied and xcp exited 0')
        # ---- --glob as an unprivileged user: one of the directories the pattern has to LIST cannot be read (EACCES): the
        # expansion is incomplete — a failure to report, not a smaller set of sources
        import subprocess
        for driver in ('parfile', 'parblock'):
            u = base + '/glob'; subprocess.run(f'chmod -R u+rwx {u} 2>/dev/null; rm -rf {u}', shell=True)
            for dd in ('pub', 'priv', 'other'):
                os.makedirs(f'{u}/S/{dd}'); open(f'{u}/S/{dd}/{dd}.txt', 'w').write(dd)
            os.makedirs(u + '/D')
            subprocess.run(f'chown -R 61234:61234 {u}', shell=True)
            os.chown(u + '/S/priv', 0, 0); os.chmod(u + '/S/priv', 0o700)
            argv = ['--glob', '--driver', driver, 'S/*/*.txt', 'D']
            r = scen.run_xcp(u, argv, ids=(61234, 61234, []), timeout=30)
            ctx.count(f'glob_unlistable.exit.{r.cls}'); ctx.case(('glob-unlistable', driver), True)
            if r.cls == '0':
                ctx.violation(f'glob-unlistable-{driver}.json', dict(argv=argv, exit=r.cls, copied=sorted(os.listdir(u + '/D')), stderr=r.stderr[-300:]),
                              f'C04: a directory the glob pattern must list is unreadable, yet xcp exited 0 having copied {sorted(os.listdir(u + "/D"))}')
            subprocess.run(f'chmod -R u+rwx {u} 2>/dev/null; rm -rf {u}', shell=True)
    ctx.cov['sites_where_a_fault_fired'] = sites_hit
    ctx.cov['rule'] = ('a block device among the sources (in a tree, as sole source); a tree with files (one multi-block), a nested directory, a link and a fifo, copied fresh / over an existing copy (thorough: into a directory, with --ownership), --fsync; '
                       'for every call of the unfaulted trace that is a step: one run per errno (quick: 2 random of 7) with that call failing; plus the destination probe; thorough adds pairs. '
                       'distinct = distinct (driver, variant, plan); non-trivial = the fault fired')
    ctx.assumptions += ['an injected errno is what the call would return on a real failure', 'sites are recognised from (syscall, flags, path side)']


def replay(ctx, path):
    run(ctx)
