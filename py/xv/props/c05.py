"""C05 — correct under short I/O counts and absent kernel copy/clone/extent support.
Proof: XcpProps/C05.lean.  Correspondence (B): sup lowers the length of chosen copy_file_range/read/write/pread/
pwrite calls (genuine short transfers), makes copy_file_range answer ENOSYS/EXDEV/EPERM, FICLONE its
'unsupported' errnos, FIEMAP EOPNOTSUPP, read EINTR; every file's calls are replayed through the model with the
kernel's answers; byte oracle on every exit-0 run.  The build without the Linux backend runs through the
library probe (D)."""
import errno, os
from .. import core, scen
from .. import bytesrun as br

MB = 1 << 20
E = scen.ERRNO


def base_cases(ctx):
    rng = ctx.rng
    out = []
    n = 28 if ctx.quick else 300
    for i in range(n):
        c = br.Case()
        b = rng.choice([7, 4096, 65536, MB, 'nop'])
        c.no_progress = b == 'nop'; c.bsize = MB if b == 'nop' else b
        bb = 3 * MB if b == 'nop' else b
        cap = 600 if bb == 7 else min(24 * bb, 4 * MB)
        size = min(rng.choice([1, bb - 1, bb, bb + 1, 2 * bb + 1, 3 * bb + rng.randrange(1, bb), 5 * bb - 1]), cap)
        sparse = rng.random() < 0.3 and bb >= 4096
        if sparse:
            size = rng.choice([40, 70]) * br.K + rng.randrange(br.K)
        c.files = [('f', br.gen_data(rng, size, sparse))]
        if rng.random() < 0.25:
            c.files.append(('g', br.gen_data(rng, rng.randrange(1, 3000), False)))
        c.driver = ['parfile', 'parblock'][i % 2]
        c.workers = rng.choice([1, 2, 4]); c.reflink = rng.choice(['auto', 'auto', 'never']); c.prior = rng.choice(['absent', 'longer'])
        c.plan, c.extra, c.tag = [], [], 'base'
        out.append(c)
    return out


def plans_for(ctx, c, r0, pairs):
    """derive fault/clamp plans from the unfaulted trace of this case"""
    rng = ctx.rng
    src, dst, data = pairs[0]
    calls = [e for e in r0.trace if e['sys'] == 'copy_file_range' and e.get('fdpath') == dst]
    plans = []
    pick = calls if len(calls) <= 3 else rng.sample(calls, 3)
    for e in pick:
        req, off = e['a'][4], e.get('off')
        for ln in {1, max(1, req - 1), rng.randint(1, max(1, req))}:
            if ln < req:
                if c.driver == 'parblock':
                    plans.append((f'clamp@{off}', [f'clamp copy_file_range D/f {off} 1 {ln}']))
                else:
                    plans.append((f'clamp#{calls.index(e) + 1}', [f'clamp copy_file_range D/f * {calls.index(e) + 1} {ln}']))
    if calls:
        e = calls[0]; req, off = e['a'][4], e.get('off')
        if req > 3:   # chain of short counts on successive attempts
            a, b2 = max(1, req // 3), max(1, req // 4)
            if c.driver == 'parblock':
                plans.append(('chain', [f'clamp copy_file_range D/f {off} 1 {a}', f'clamp copy_file_range D/f {off + a} 1 {b2}', f'clamp copy_file_range D/f {off + a + b2} 1 1']))
            else:
                plans.append(('chain', [f'clamp copy_file_range D/f * 1 {a}', f'clamp copy_file_range D/f * 2 {b2}', f'clamp copy_file_range D/f * 3 1']))
        if req > 3:   # a short count followed by a hard error on the retry, inside one block / one copy loop
            a = max(1, req // 3)
            if c.driver == 'parblock':
                plans.append(('short-then-error', [f'clamp copy_file_range D/f {off} 1 {a}', f'fail copy_file_range D/f 2 {E["ENOSPC"]}']))
            else:
                plans.append(('short-then-error', [f'clamp copy_file_range D/f * 1 {a}', f'fail copy_file_range D/f 2 {E["EIO"]}']))
        if req > 3:   # a short count, then ENOSYS/EXDEV on the retry: the rest of the block goes through user space, from the RIGHT offset
            a = max(1, req // 3)
            en = rng.choice(['ENOSYS', 'EXDEV', 'EPERM'])
            plans.append(('short-then-unsupported', [f'clamp copy_file_range D/f {off if c.driver == "parblock" else "*"} 1 {a}', f'failo copy_file_range D/f {off + a} 1 {E[en]}']))
        big = max(1, scen.data_bytes(data)[0] // 120)
        plans.append(('all-short', [f'clamp copy_file_range D/f * * {big}']))
        for en in ('ENOSYS', 'EXDEV', 'EPERM'):
            nth = rng.choice([1, 1, 2]) if len(calls) > 1 else 1
            base = [f'fail copy_file_range D/f {nth} {E[en]}']
            plans.append((f'cfr-{en}#{nth}', base))
            small = max(1, scen.data_bytes(data)[0] // 100)
            if en == 'ENOSYS':
                plans.append(('uspace-short-read', base + [f'clamp read S/f * * {small}', f'clamp pread64 S/f * * {small}']))
                plans.append(('uspace-short-write', base + [f'clamp write D/f * 1 {small}', f'clamp pwrite64 D/f * 1 {small}']))
                plans.append(('uspace-eintr', base + [f'fail read S/f 1 {E["EINTR"]}', f'fail read S/f 3 {E["EINTR"]}']))
                # the source delivers fewer bytes than its size says (sysfs, a file truncated meanwhile): read returns 0 early
                plans.append(('uspace-early-eof', base + ['clamp read S/f * 2 0', 'clamp pread64 S/f * 2 0']))
        plans.append(('cfr-always-ENOSYS', [f'fail copy_file_range * * {E["ENOSYS"]}']))
        plans.append(('cfr-EIO', [f'fail copy_file_range D/f 1 {E["EIO"]}']))
    if c.reflink == 'auto':
        for en in ('EOPNOTSUPP', 'EINVAL', 'EXDEV'):
            plans.append((f'clone-{en}', [f'fail ioctl D/f 1 {E[en]}']))
    if any(x[0] == 'hole' for x in data) and c.driver == 'parblock':
        plans.append(('fiemap-EOPNOTSUPP', [f'fail ioctl fiemap * {E["EOPNOTSUPP"]}']))
        plans.append(('fiemap-EOPNOTSUPP+short', [f'fail ioctl fiemap * {E["EOPNOTSUPP"]}', f'clamp copy_file_range D/f * 1 5']))
    if any(x[0] == 'hole' for x in data) and c.driver == 'parfile':
        # hole search not offered by the file system (SEEK_DATA/SEEK_HOLE refused): an error or a full copy, never "no data"
        plans.append(('seek-refused', [f'fail lseek S/f * {E["EINVAL"]}']))
        plans.append(('seek-refused-later', [f'fail lseek S/f 3 {E["EINVAL"]}']))
    if ctx.quick and len(plans) > 9:
        always = ('short-then-error', 'short-then-unsupported', 'fiemap-EOPNOTSUPP', 'fiemap-EOPNOTSUPP+short', 'seek-refused', 'seek-refused-later', 'uspace-short-write', 'cfr-always-ENOSYS')
        keep = plans[:2] + [p for p in plans[2:] if p[0] in always] + rng.sample([p for p in plans[2:] if p[0] not in always], 5)
        plans = keep
    return plans


def fallback_backend(ctx, root, probe):
    import subprocess
    rng = ctx.rng
    d = root + '/FB'
    os.makedirs(d, exist_ok=True)
    n = 40 if ctx.quick else 400
    for i in range(n):
        size = rng.choice([1, 10, 4096, 5000, 70000])
        src, dst = f'{d}/s{i}', f'{d}/d{i}'
        scen.write_data(src, [('seg', size, 100 + i)], sync=False)
        scen.write_data(dst, [('hole', size)], sync=False)
        kind = rng.choice(['offset', 'offset', 'bytes', 'copyfile'])
        off = rng.choice([0, 0, 1, size // 2])
        nbytes = rng.choice([size - off, max(1, (size - off) // 2), size - off + 7])   # the last one reaches past EOF
        if kind == 'copyfile':
            off, nbytes = 0, size
        req = f'{kind} {src} {dst} {off} {nbytes}' if kind != 'copyfile' else f'copyfile {src} {dst}'
        pname, plan = rng.choice([('plain', []), ('short-read', [f'clamp pread64 s{i} * 1 3', f'clamp read s{i} * 1 3']),
                                  ('all-short', [f'clamp pread64 s{i} * * {max(1, nbytes // 7)}', f'clamp read s{i} * * {max(1, nbytes // 7)}']),
                                  ('short-write', [f'clamp pwrite64 d{i} * 1 2', f'clamp write d{i} * 2 2']),
                                  ('eintr', [f'fail read s{i} 1 {E["EINTR"]}', f'fail read s{i} 2 {E["EINTR"]}']),
                                  ('eio', [f'fail pread64 s{i} 2 {E["EIO"]}', f'fail read s{i} 2 {E["EIO"]}'])])
        tf, pf = f'{d}/trace', f'{d}/plan'
        open(pf, 'w').write('\n'.join(plan + ['timeout 30000']) + '\n')
        p = subprocess.run([core.SUP, '-o', tf, '-p', pf, '--', probe], input=req + '\n', capture_output=True, text=True, timeout=90, env=core.ENV)
        ans = p.stdout.strip().split('\n')[-1] if p.stdout.strip() else 'no-answer'
        trace, final = scen.parse_trace(tf)
        ctx.count(f'fallback.{kind}'); ctx.count(f'fallback.plan.{pname}'); ctx.count('fallback.ans.' + ans.split()[0])
        ctx.case(('fallback', kind, size, off, nbytes, pname), True,
                 sample=dict(request=req.replace(d, ''), plan=plan, answer=ans) if i in (1, 2) else None)
        if any(e['sys'] in ('copy_file_range', 'ficlone', 'fiemap') or (e['sys'] == 'lseek' and e['a'][2] in (3, 4)) for e in trace):
            ctx.violation(f'fallback-{i}-syscalls.json', dict(request=req), 'the build without the Linux backend issued Linux-only calls', no_input=True)
        calls = br.data_calls(trace, src, dst)
        answers, toks = br.script_for(calls, src, dst)
        if kind == 'offset':
            mreq = f"blockjob 0 {off} {nbytes} | {' '.join(answers)}"
        else:
            mreq = f"cfb 0 {off} {nbytes} | {' '.join(answers)}"
        m = core.ask(core.MODEL, [mreq])[0]
        mt, stop, _ = br.model_tokens(m)
        ctx.cov['traces_validated_against_impl'] += 1
        # oracle on the implementation: success => the range was copied exactly, nothing else touched
        if ans.startswith('ok'):
            got = int(ans.split()[1])
            sb, db = open(src, 'rb').read(), open(dst, 'rb').read()
            exp = bytes(size)[:off] + sb[off:off + nbytes] + bytes(size)[off + nbytes:]
            if got != min(nbytes, max(0, size - off)) and kind != 'copyfile' or db[:size] != exp[:size] or len(db) != size:
                ctx.violation(f'fallback-{i}.json', dict(request=req, plan=plan, answer=ans, model=m, observed=toks),
                              f'fallback backend reported success {ans!r} but the destination range is wrong (size {size} off {off} bytes {nbytes})')
                continue
        ok_model = stop.startswith('ok')
        if mt != toks[:len(mt)] and not (not ok_model and toks == mt[:len(toks)]) or ok_model != ans.startswith('ok') or (mt != toks and ok_model):
            ctx.cov['disagreements_checked'] += 1
            ctx.violation(f'fallback-{i}-corr.json', dict(request=req, plan=plan, answer=ans, model_request=mreq, model=m, observed=toks,
                                                          correspondence='libfs fallback copy_file_offset/copy_file_bytes vs Xcp.rangeUspace/bytesUspace'),
                          f'model/implementation disagree on the fallback backend ({kind}, plan {pname})', no_input=True)
        for f in (src, dst):
            os.unlink(f)


def run(ctx):
    ctx.proofs()
    core.build_repo(); core.build_sup()
    fbdir = core.build_harness(fallback=True)
    cases = base_cases(ctx)
    # corpus first: the repaired defect F1
    c0 = br.Case(); c0.files = [('f', [('seg', 100, 5)])]; c0.bsize = 1000; c0.no_progress = False; c0.driver = 'parblock'; c0.workers = 2
    c0.reflink = 'auto'; c0.prior = 'absent'; c0.plan = []; c0.extra = []; c0.tag = 'corpus-F1'
    # corpus: a sparse source on a file system without extent mapping, block driver (whole-file path must be taken)
    c1 = br.Case(); c1.files = [('f', br.gen_data(ctx.rng, 70 * br.K + 123, True))]; c1.bsize = 65536; c1.no_progress = False; c1.driver = 'parblock'; c1.workers = 2
    c1.reflink = 'auto'; c1.prior = 'absent'; c1.plan = []; c1.extra = []; c1.tag = 'corpus-sparse-no-fiemap'
    # corpus: the same source under the file driver (hole search by lseek)
    c2 = br.Case(); c2.files = [('f', [('seg', 40 * br.K, 7), ('hole', 64 * br.K), ('seg', 9 * br.K + 5, 8)])]; c2.bsize = 65536; c2.no_progress = False; c2.driver = 'parfile'; c2.workers = 2
    c2.reflink = 'never'; c2.prior = 'absent'; c2.plan = []; c2.extra = []; c2.tag = 'corpus-sparse-parfile'
    cases = [c0, c1, c2] + cases
    with core.Scratch('c05') as root:
        for i, c in enumerate(cases):
            pairs = br.setup_case(root, c)
            r0 = scen.run_xcp(root, br.argv_of(c), timeout=60)
            if r0.cls != '0':
                ctx.violation(f'base-{i}.json', dict(case=c.__dict__, stderr=r0.stderr[-800:]), 'unfaulted copy failed', no_input=True)
                continue
            br.verify_case(ctx, root, c, pairs, r0, f'base-{i}')
            plans = plans_for(ctx, c, r0, pairs)
            if c.tag == 'corpus-F1':
                plans = [('F1', ['clamp copy_file_range D/f * 1 37'])] + plans
            for name, plan in plans:
                c.plan = plan
                pairs = br.setup_case(root, c)
                r = scen.run_xcp(root, br.argv_of(c), plan=plan, timeout=60)
                kind = name.split('#')[0].split('@')[0]
                ctx.count(f'plan.{kind}'); ctx.count(f'exit.{r.cls}'); ctx.count(f'driver.{c.driver}')
                injected = sum(1 for e in r.trace if e.get('inj') or 'clamp_from' in e)
                ctx.count('runs_where_a_fault_or_clamp_fired' if injected else 'runs_where_nothing_fired')
                ctx.case((i, name, tuple(plan)), nontrivial=injected > 0,
                         sample=dict(argv=br.argv_of(c), plan=plan, exit=r.cls, fired=injected) if (i, name) in ((0, 'F1'), (3, 'chain')) or (i == 5 and kind == 'cfr-ENOSYS') else None)
                if r.cls == 'hang':
                    ctx.violation(f'case-{i}-{name}-hang.json', dict(case=c.__dict__, plan=plan), f'xcp hung under plan {plan}')
                    continue
                br.verify_case(ctx, root, c, pairs, r, f'case-{i}-{name}')
                if r.cls != '0' and not c.model_failed and injected:
                    # the model, fed the same kernel answers, says every loop succeeds, yet xcp failed
                    hard = any(e.get('inj') and (e['sys'] == 'lseek' or (e['sys'] in ('copy_file_range', 'ficlone') and e.get('inj') in (E['EIO'],))) for e in r.trace)
                    short_w = any(e['sys'] in ('pwrite64',) and 'clamp_from' in e for e in r.trace)
                    if not hard and not short_w:
                        ctx.violation(f'case-{i}-{name}-exit.json', dict(case=c.__dict__, plan=plan, exit=r.exit, stderr=r.stderr[-800:],
                                                                         correspondence='model replay predicts success, implementation failed'),
                                      f'xcp exited {r.cls} where the model predicts success (plan {plan})', no_input=True)
            c.plan = []
        # ---- the build without the Linux backend: libfs/src/fallback.rs linked WITHOUT default features
        fallback_backend(ctx, root, fbdir + '/probe_fb')
    ctx.cov['rule'] = ('for each base case (size x block x layout x driver) the unfaulted trace is taken, then plans are derived from it: clamp of individual '
                       'copy_file_range calls to {1, req-1, random}, chains on successive attempts, every call short, ENOSYS/EXDEV/EPERM at the first or a later call '
                       '(+ short read/pread/write/pwrite and EINTR inside the user-space loops), EIO, FICLONE errnos, FIEMAP EOPNOTSUPP; plus the no-Linux-backend build. '
                       'distinct = distinct (case, plan); non-trivial = the plan actually fired in the run')
    ctx.assumptions += ['KernSafe/KernLive checked on every traced kernel answer', "std's write_all is modelled as one call"]


def replay(ctx, path):
    run(ctx)
