"""Scenarios: materialise a sandbox on ext4, run the real xcp (optionally under sup), snapshot, parse traces."""
import errno, hashlib, json, os, shutil, socket, stat, subprocess, time
from . import core, fsutil

ERRNO = {n: getattr(errno, n) for n in ('EIO', 'ENOSPC', 'EACCES', 'EMFILE', 'EROFS', 'EEXIST', 'EPERM', 'ENOSYS', 'EXDEV',
                                         'EOPNOTSUPP', 'EINVAL', 'ETXTBSY', 'EINTR', 'ENOENT', 'ENOTDIR', 'EISDIR', 'EBADF', 'EFBIG', 'ENOMEM', 'ENAMETOOLONG', 'ELOOP', 'ENXIO',
                                         'EAGAIN', 'EBUSY', 'EDQUOT', 'ENOTSUP')}


def data_bytes(data):
    """data: list of ('seg', n, seed) | ('hole', n) -> (length, [(start, stop, seed)])"""
    pos, segs = 0, []
    for d in data:
        if d[0] == 'seg':
            segs.append((pos, pos + d[1], d[2])); pos += d[1]
        else:
            pos += d[1]
    return pos, segs


def write_data(path, data, sync=False):
    length, segs = data_bytes(data)
    fd = os.open(path, os.O_CREAT | os.O_TRUNC | os.O_WRONLY, 0o600)
    try:
        os.ftruncate(fd, length)
        for a, b, seed in segs:
            # write in chunks to keep memory flat
            off = a
            while off < b:
                n = min(b - off, 1 << 22)
                os.pwrite(fd, fsutil.lcg_bytes(n, seed * 7919 + off), off)
                off += n
        if sync:
            os.fsync(fd)
    finally:
        os.close(fd)


def expected_bytes_hash(data):
    h = hashlib.sha256()
    length, segs = data_bytes(data)
    pos = 0
    for a, b, seed in segs:
        if a > pos:
            z = a - pos
            while z > 0:
                n = min(z, 1 << 22); h.update(b'\0' * n); z -= n
        off = a
        while off < b:
            n = min(b - off, 1 << 22)
            h.update(fsutil.lcg_bytes(n, seed * 7919 + off)); off += n
        pos = b
    z = length - pos
    while z > 0:
        n = min(z, 1 << 22); h.update(b'\0' * n); z -= n
    return h.hexdigest()[:16]


def materialise(root, tree, umask=0o022):
    """tree: list of entries, parents first. Paths relative to root (bytes or str)."""
    old = os.umask(0)
    try:
        for e in tree:
            p = e['p']
            path = os.path.join(root.encode(), p) if isinstance(p, bytes) else os.path.join(root, p)
            k = e['k']
            if k == 'dir':
                os.makedirs(path, exist_ok=True)
            elif k == 'file':
                write_data(path, e.get('data', []), sync=e.get('sync', False))
            elif k == 'link':
                os.symlink(e['target'], path)
            elif k == 'hard':
                to = e['to']
                os.link(os.path.join(root.encode(), to) if isinstance(to, bytes) else os.path.join(root, to), path)
            elif k == 'fifo':
                os.mkfifo(path, e.get('mode', 0o644))
            elif k == 'sock':
                s = socket.socket(socket.AF_UNIX)
                cwd = os.getcwd()
                d, b = os.path.split(path)
                os.chdir(d)
                try:
                    s.bind(b)
                finally:
                    os.chdir(cwd); s.close()
            elif k in ('chr', 'blk'):
                maj, mi = e.get('rdev', (1, 3))
                os.mknod(path, (stat.S_IFCHR if k == 'chr' else stat.S_IFBLK) | e.get('mode', 0o644), os.makedev(maj, mi))
            if k in ('file', 'dir', 'fifo', 'sock', 'chr', 'blk'):
                if 'mode' in e:
                    os.chmod(path, e['mode'])
                for xk, xv in (e.get('xattr') or {}).items():
                    os.setxattr(path, xk, xv)
                if 'uid' in e or 'gid' in e:
                    os.chown(path, e.get('uid', -1), e.get('gid', -1))
                    if 'mode' in e:
                        os.chmod(path, e['mode'])      # chown clears set-id bits
            if k == 'file' and 'mtime' in e:
                os.utime(path, ns=(e.get('atime', e['mtime']), e['mtime']))
        # directory mtimes last (creating children changes them)
        for e in tree:
            if e['k'] == 'dir' and 'mtime' in e:
                p = e['p']
                path = os.path.join(root.encode(), p) if isinstance(p, bytes) else os.path.join(root, p)
                os.utime(path, ns=(e['mtime'], e['mtime']))
    finally:
        os.umask(old)


def file_hash(path):
    h = hashlib.sha256()
    with open(path, 'rb') as fh:
        while True:
            c = fh.read(1 << 22)
            if not c:
                break
            h.update(c)
    return h.hexdigest()[:16]


def snapshot(root, content=True):
    """path(bytes, relative) -> dict of lstat facts. Never follows links."""
    out = {}
    rootb = root.encode() if isinstance(root, str) else root

    def visit(pathb, rel):
        try:
            st = os.lstat(pathb)
        except OSError as e:
            out[rel] = dict(kind='error', err=e.errno); return
        m = st.st_mode
        kind = ('dir' if stat.S_ISDIR(m) else 'file' if stat.S_ISREG(m) else 'link' if stat.S_ISLNK(m) else 'fifo' if stat.S_ISFIFO(m)
                else 'sock' if stat.S_ISSOCK(m) else 'chr' if stat.S_ISCHR(m) else 'blk' if stat.S_ISBLK(m) else 'other')
        d = dict(kind=kind, mode=stat.S_IMODE(m), uid=st.st_uid, gid=st.st_gid, nlink=st.st_nlink, size=st.st_size,
                 mtime=st.st_mtime_ns, ctime=st.st_ctime_ns, ino=st.st_ino, blocks=st.st_blocks, rdev=st.st_rdev if kind in ('chr', 'blk') else 0)
        if kind == 'link':
            d['target'] = os.readlink(pathb)
        if kind == 'file':
            if content:
                try:
                    d['hash'] = file_hash(pathb)
                except OSError as e:
                    d['hash'] = f'unreadable:{e.errno}'
        if kind in ('file', 'dir'):
            try:
                d['xattr'] = {k: os.getxattr(pathb, k, follow_symlinks=False).hex() for k in sorted(os.listxattr(pathb, follow_symlinks=False))}
            except OSError:
                d['xattr'] = {}
        out[rel] = d
        if kind == 'dir':
            try:
                names = sorted(os.listdir(pathb))
            except OSError:
                names = []
            for n in names:
                visit(os.path.join(pathb, n), (rel + b'/' + n) if rel else n)

    visit(rootb, b'')
    return out


def snap_view(s, fields=('kind', 'mode', 'uid', 'gid', 'size', 'hash', 'mtime', 'target', 'rdev', 'xattr', 'nlink')):
    return {k: {f: v.get(f) for f in fields if f in v} for k, v in s.items()}


def sub_snapshot(s, prefix):
    """entries at or under prefix (bytes)"""
    return {k: v for k, v in s.items() if k == prefix or k.startswith(prefix + b'/')}


def decode_jstr(s):
    """sup writes raw path bytes as \\u00XX escapes: map back to bytes."""
    return s.encode('latin-1', 'replace') if isinstance(s, str) else s


def parse_trace(path):
    evs, final = [], {}
    try:
        with open(path, 'r') as fh:
            for line in fh:
                line = line.strip()
                if not line:
                    continue
                try:
                    j = json.loads(line)
                except ValueError:
                    continue
                if 'exit' in j:
                    final = j
                else:
                    evs.append(j)
    except OSError:
        pass
    evs.sort(key=lambda j: j.get('n', 0))
    return evs, final


class Result:
    pass


def run_xcp(root, argv, cwd=None, plan=None, umask=0o022, timeout=120, trace=True, env_extra=None, binary=None, tag='t', nofile=None, cpus=None, ids=None, stdout_path=None):
    """Runs xcp with argv (list of str/bytes). With plan/trace, under sup. Returns Result(exit, cls, stderr, trace, final)."""
    r = Result()
    binary = binary or core.XCP
    cwd = cwd or root
    env = dict(core.ENV)
    env.update(env_extra or {})
    tfile = os.path.join(root, f'.sup-trace-{tag}')
    pfile = os.path.join(root, f'.sup-plan-{tag}')
    use_sup = trace or plan
    cmd = [binary] + list(argv)
    if use_sup:
        lines = list(plan or [])
        if not any(l.startswith('timeout') for l in lines):
            lines.append(f'timeout {int(timeout * 1000)}')
        with open(pfile, 'w') as fh:
            fh.write('\n'.join(lines) + '\n')
        cmd = [core.SUP, '-o', tfile, '-p', pfile, '--'] + cmd
    t0 = time.time()

    def pre():
        os.umask(umask)
        if nofile:
            import resource
            resource.setrlimit(resource.RLIMIT_NOFILE, (nofile, nofile))
        if cpus:
            os.sched_setaffinity(0, cpus)            # e.g. {0}: the run sees ONE available CPU
        if ids:                                      # (uid, gid, [supplementary groups]): run as an unprivileged user
            os.setgroups(ids[2]); os.setgid(ids[1]); os.setuid(ids[0])
    try:
        out_fh = open(stdout_path, 'wb') if stdout_path else None      # e.g. /dev/full: a standard output that cannot be written
        p = subprocess.run(cmd, cwd=cwd, env=env, stdout=out_fh or subprocess.PIPE, stderr=subprocess.PIPE, timeout=timeout + 30, preexec_fn=pre)
        if out_fh: out_fh.close()
        r.stderr = p.stderr.decode('utf-8', 'replace')[-4000:]
        r.stdout_full = (p.stdout or b'').decode('utf-8', 'replace')
        r.stdout = r.stdout_full[-2000:]
        rc = p.returncode
        hung = False
    except subprocess.TimeoutExpired:
        r.stderr, r.stdout, rc, hung = '', '', -9, True
        r.stdout_full = ''
    r.wall = time.time() - t0
    r.trace, r.final = ([], {})
    if use_sup:
        r.trace, r.final = parse_trace(tfile)
        for f in (tfile, pfile):
            try:
                os.unlink(f)
            except OSError:
                pass
        if r.final:
            rc = r.final.get('exit', rc)
            hung = hung or bool(r.final.get('timeout'))
    r.exit = rc
    r.hung = hung
    r.killed = bool(r.final.get('killed_by_plan')) if r.final else False
    r.cls = 'hang' if hung else 'killed' if r.killed else '0' if rc == 0 else 'usage' if rc == 2 else 'err'
    return r


# ---------------------------------------------------------------------------------------------
# trace projection

DATA_SYS = ('copy_file_range', 'pread64', 'pwrite64', 'read', 'write')


def under(path, root):
    return path == root or path.startswith(root.rstrip('/') + '/')


def calls_on(trace, path, systems=None):
    """events whose (out) descriptor or path argument designates `path` (absolute str)."""
    out = []
    for e in trace:
        if systems and e['sys'] not in systems:
            continue
        if e.get('fdpath') == path or e.get('path') == path or e.get('fdpath2') == path:
            out.append(e)
    return out
