#!/usr/bin/env python3
"""Regenerates MANIFEST.json from the table below (kept in one place so it stays valid)."""
import json, os, subprocess
V = '/verif'
CLAIMS = {
 'C19': dict(
   text="Unbounded Lean theorems about the model of merge_extents / the FIEMAP paging loop / the SEEK_DATA-SEEK_HOLE loop (coverage preserved, only unit gaps added, input boundaries, ordered), tied to /repo by running libfs' real functions (linked by path) and the compiled model on the same enumerated/random extent lists and on real sparse files; the property's oracle is evaluated on the implementation's own answers.",
   note="Lean kernel; axioms ⊆ {propext, Classical.choice, Quot.sound}; hand-written model tied by differential runs (finite sampling); FIEMAP well-formedness and SEEK soundness are hypotheses, checked on every real answer of the run.",
   tech="Lean 4 theorems (induction over extent lists / fuel) + in-process differential correspondence", ref='§3 C19'),
 'C01': dict(
   text="Lean theorems: for every file content/size, block size >= 1, every kernel that never moves more than asked nor past EOF and returns 0 only at EOF (all legal short counts), every legal data/hole or extent report and every order/multiplicity of parblock's block jobs, a copy loop that reports success leaves destination = source (createAllocate forgets any previous content). Tied to /repo by running the real CLI under a ptrace supervisor and replaying each file's data-moving calls, with the kernel's real (incl. clamped) answers, through the compiled model; byte oracle on every exit-0 run.",
   note="Lean kernel, axioms ⊆ {propext, Classical.choice, Quot.sound}; KernSafe/KernLive, SEEK/FIEMAP soundness are hypotheses (checked on each traced answer); exit 0 ⇒ every loop succeeded is C04's claim; model tied by sampling.",
   tech="Lean 4 theorems (induction on fuel, coverage algebra) + trace-replay correspondence under ptrace", ref='§3 C01'),
 'C09': dict(
   text="Lean theorems over raw byte names and unbounded histories: the recogniser accepts exactly <name>.~N~ (N < 2^64), the chosen number exceeds all and the name is fresh, an overwrite preserves the old content under it, no existing backup is ever modified, auto iff a backup exists, history induction, and the old content exists under one of two names at every prefix of the step list (kill points). Tied to /repo by running histories of real invocations (non-UTF-8, prefix-related, backup-looking names; numbers near 2^64) against the model's runHistory and by SIGKILL before/after each mutating call.",
   note="Lean kernel, standard axioms only; rename atomicity and SIGKILL semantics assumed; directory modelled as a finite map of regular files; model tied by sampling.",
   tech="Lean 4 theorems (round-trip, induction over histories, prefix invariant) + history differential + kill enumeration", ref='§3 C09'),
 'C05': dict(
   text="Lean theorems quantified over EVERY kernel oracle that merely never moves more than asked or past EOF: whatever short counts it returns at whichever call, whether copy_file_range answers ENOSYS/EXDEV/EPERM (also mid-block), read answers EINTR, on the Linux or the fallback backend, a loop that reports success has moved exactly the requested range (else it fails; a short pwrite is a failure); errno classification of copy_file_range and FICLONE stated outright; FIEMAP unsupported => whole file. Tied to /repo by a ptrace supervisor that lowers length arguments (genuine short transfers) and injects errnos at calls derived from each case's own trace, replaying every file's calls through the compiled model with the kernel's answers, plus libfs linked without the Linux backend.",
   note="Lean kernel, standard axioms only; KernSafe checked on every traced answer; std::io::Write::write_all modelled as one call; the no-Linux-backend build is exercised at the libfs level (libxcp's own dependency re-enables the Linux backend by feature unification).",
   tech="Lean 4 theorems (∀ kernel oracle, induction on fuel) + fault/clamp enumeration with trace-replay correspondence", ref='§3 C05'),
 'C10': dict(
   text="Lean theorems on the model of finalise_copy: for every configuration, every source/destination metadata and EVERY behaviour of chown on the mode bits, the final mode equals the source's 12 bits unless --no-perms, mtime equals the source's nanoseconds unless --no-timestamps, owner/group when --ownership, each source xattr present; with the flags the previous/default values stay; the old order provably loses set-id bits. That finalisation follows the last write on every schedule is the pool invariant (C18). Tied to /repo by end-state comparison against Xcp.finalise (modes incl. set-id/sticky, sub-second/future mtimes, xattrs, uid/gid as root, all flag combinations, fresh/overwritten, both drivers) and a per-file trace monitor proved sound for the model.",
   note="Lean kernel, standard axioms; Linux chown semantics (clears S_ISUID, S_ISGID if S_IXGRP) enters only the executable comparison, not the theorems; runs as root on ext4; sampling.",
   tech="Lean 4 theorems (decision logic over the finalisation order, ∀ chown effect) + end-state and trace-monitor correspondence", ref='§3 C10'),
 'C14': dict(
   text="Lean theorems on the model of the walker's kind dispatch and Operation::Special/copy_node: exactly sockets, character devices and FIFOs are recreated; the node has the source's type, st_rdev and mode & ~umask; an existing entry is replaced (unlink, mknod) unless --no-clobber (then nothing is modified and the run fails); block/unknown kinds fail with no call; the call vocabulary has no open of the source. Tied to /repo by real runs as root over kinds x major/minor x modes x umask x tree position x destination kinds x -n x driver, comparing end state and unlink/mknod calls with the model and checking that the source node is never opened.",
   note="Lean kernel, standard axioms; needs CAP_MKNOD (present); sampling.",
   tech="Lean 4 theorems (decision logic) + end-state/trace correspondence", ref='§3 C14'),
 'C15': dict(
   text="Lean theorems on tryReflink/classifyClone/fileProgram: never issues no clone whatever the kernel would answer; always succeeds only through a successful clone with no data call and fails when cloning is unsupported, errors or the backend lacks it; auto issues the clone first and on exactly EOPNOTSUPP/EINVAL/EXDEV/ETXTBSY falls back to the data copy (byte-exact by C01/C05); other clone errors fail; the per-file trace monitor accepts every model program (soundness theorem) and is evaluated on real traces. Tied to /repo with FICLONE answered by ext4, by each unsupported errno, by hard errors, or emulated as successful by the supervisor.",
   note="Lean kernel, standard axioms; successful clone emulated by a whole-file kernel copy; sampling.",
   tech="Lean 4 theorems (decision logic + monitor soundness) + trace-monitor correspondence with injected/emulated ioctl answers", ref='§3 C15'),
 'C11': dict(
   text="PARTIAL by nature (allocation is the file system's): Lean theorems that both drivers write only inside the data ranges reported for the source — SEEK_DATA/HOLE segments (parfile, any legal seek oracle and kernel), merged FIEMAP extents (parblock; merging adds only C19's one-byte gaps), for every block size — that a block job writes only inside its block, that an all-hole file writes nothing, and that create+ftruncate forgets a previous allocation. Measured on every run: st_blocks(dst) vs st_blocks(src), destination data map within the source's, for layouts with 1..64 MiB holes (200 MiB thorough), >32 extents, block sizes straddling segments, fresh and fully allocated destinations, both drivers; calls replayed through the model.",
   note="Lean kernel, standard axioms; 'unwritten ranges of a truncated file occupy no storage' is ext4's contract, measured not proved; sampling.",
   tech="Lean 4 theorems (written ranges ⊆ reported data ranges) + measured allocation and trace-replay correspondence", ref='§3 C11'),
 'C18': dict(
   text="Lean theorems over EVERY label sequence (schedule) of a concurrent model of the parblock dispatcher and bounded pool (Arc counts, queue, running jobs, event log) and of the parfile workers: no write of a handle follows its finalisation or fsync; with fsync on every close is immediately preceded by finalise, fsync; in every final state each file has an fsync after all of its block writes (each block written exactly once); every schedule terminates (exact step count) and never deadlocks; without the option no fsync is logged; the sequential per-file program ends with fsync. Tied to /repo by real --fsync runs under perturbed schedules (seeded delays / priority holds at system-call boundaries, stalled copy_file_range), workers 1..16, multi-block and sparse files: per destination the fsync is entered after every data call has returned, and the per-file monitor (sound for the model by theorem) accepts the projection.",
   note="Lean kernel, standard axioms; the thread structure of the model is transcribed from the source (Arc/Drop, blocking_threadpool, crossbeam assumed as documented); perturbed schedules sample real interleavings.",
   tech="Lean 4 theorems (inductive invariants over a small-step concurrent model, all schedules) + schedule-perturbed trace correspondence", ref='§3 C18'),
 'C20': dict(
   text="Lean theorems over every schedule of the dispatcher/pool model: open handles <= queue capacity + workers + 1 whatever the number of files (parfile: <= workers); with capacity 128 and <= 64 workers 2*handles+16 < 1024; the bound is attained in the model. Tied to /repo by runs over 400..3000 (thorough 20000) files under RLIMIT_NOFILE=1024 with the supervisor counting open descriptors: exit 0, measured peak <= model bound, and with stalled pool threads the peak reaches exactly the capacity-dependent level 2*(128+workers+1) (so a changed queue length or a leaked handle is a disagreement).",
   note="Lean kernel, standard axioms; descriptors = 2 per handle + constant; model thread structure transcribed from the source; sampling of schedules.",
   tech="Lean 4 theorems (Arc-count invariant, all schedules) + measured descriptor peaks under rlimit", ref='§3 C20'),
 'C03': dict(
   text="Lean theorems on the namespace model: a copy whose destination designates the source itself (any spelling, symbolic link) is refused before anything is created, and rejected up front per source; a failed or refused operation is a no-op; FRAME: an operation on a plain target (absolute, no symbolic link at or above it) changes nothing that is neither at/below its target nor an ancestor's entry list, for all four operation kinds incl. create_dir_all, and ancestors stay directories — for every operation list, hence every prefix (kill point). Tied to /repo by an alias table (./f, own directory, dir/../f, symlink, hard link, directory aliases, link back into the source, special files) x position x driver, SIGKILL before/after every mutating call and EIO/ENOSPC (thorough: six errnos) at every mutating call, comparing content, kind, mode, owner, mtime, xattrs, link count of every source and bystander.",
   note="Lean kernel, axioms propext/Quot.sound only; the model has no hard links (the real guard compares device+inode; exercised by the runs) and no permissions; outside PlainTarget the code writes through destination symlinks (finding F13, reported under C02).",
   tech="Lean 4 theorems (frame/invariant over a file-system namespace model) + alias table, kill-point and fault enumeration", ref='§3 C03'),
 'C08': dict(
   text="Lean theorems: every operation executed on a target that does not exist (lstat) alters no existing entry — directories stay directories, everything else is identical — and so does every run and every prefix of a run of such operations (invariant: any kill point); with no-clobber the walker emits NO operation for an entry whose target exists (file, directory, special, live or dangling link) but stops, and a stopped walk exits non-zero. Stated gap: that the probe made at walk time still holds at execution time (FreshRun) is assumed. Tied to /repo by pre-populated destinations with a colliding entry of each kind at a random depth/position, both drivers, a third under perturbed schedules: pre-existing entries compared before/after, no successful mutating call on a pre-existing entry in the trace, exit class and end state vs the model.",
   note="Lean kernel, axioms propext/Quot.sound only; FreshRun is a hypothesis (fails only for two sources onto one target — finding F10 — or external interference); sampling.",
   tech="Lean 4 theorems (preservation invariant over the namespace model) + collision enumeration with trace check", ref='§3 C08'),
 'C13': dict(
   text="Lean theorems: a fully resolved path never designates a symbolic link; with dereference the walk emits no link operation for any tree (links to files, directories, chains of any length); operations other than link operations never create a symbolic link anywhere (link count of the whole file system does not grow); a dangling link makes the walk fail and a failed walk exits non-zero; a cyclic link does not resolve (ELOOP). Tied to /repo by trees with links to files/directories/links (chains up to 38), relative/absolute, inside/outside, dangling, self-loop, 2-cycle, ancestor loop, both drivers: real end state vs the model, and an independent resolver as oracle (no link left, every link replaced by its target's content).",
   note="Lean kernel, axioms propext/Quot.sound; well-formedness hypotheses (root not a link, cwd a directory) stated; walkdir's follow_links/loop detection modelled, not verified.",
   tech="Lean 4 theorems (induction on resolution fuel and on the tree) + end-state correspondence", ref='§3 C13'),
 'C16': dict(
   text="Lean theorems: validation is a function of a read-only view of the file system, so a rejected invocation leaves it untouched and exits non-zero (by construction); and each class IS rejected whatever the other arguments are and wherever the offending one stands: no source, missing source, directory without recursive, several sources to a non-directory, directory onto an existing non-directory (per source, against its own target), source identical to destination (textually or the same object via spelling/symlink), --force with --no-clobber, malformed or empty glob. Tied to /repo by an exhaustive table class x position {first, middle, last} x destination state x driver with whole-sandbox snapshots, valid twins, and unknown option values (usage errors).",
   note="Lean kernel, axioms propext/Quot.sound; clap's parsing (unknown option values, non-UTF-8 arguments) is observed, not modelled.",
   tech="Lean 4 theorems (decision logic of the validator) + exhaustive rejection table", ref='§3 C16'),
}
PENDING = "check not built yet in this session (planned: Lean model + theorems + correspondence, see DESIGN.md §3); not claimed until it runs"
ALL = [f'C{i:02d}' for i in range(1, 21)]

def main():
    commits = subprocess.run(['git', '-C', '/repo', 'log', '--format=%H %s', 'f17141f..HEAD'], capture_output=True, text=True).stdout.strip().split('\n')
    m = dict(
      version=1,
      setup_cmd='./check --setup',
      hooks=dict(guard='xcp_verif', enable='none needed: no source hooks; checks build /repo as it is (cargo build --offline into /verif/.build)',
                 baseline_off_cmd='/verif/tools/baseline.sh', source_commits=[], add_only=True),
      engines=[dict(name='lean-model', path='lean/', serves_properties=sorted(CLAIMS), kind_free_text='Lean 4 executable model + theorems (lake project, core only)'),
               dict(name='check', path='check', serves_properties=sorted(CLAIMS), kind_free_text='python driver: builds, proof audit, correspondence runs, oracle, evidence'),
               dict(name='harness', path='harness/', serves_properties=sorted(CLAIMS), kind_free_text='Rust probes linking /repo/libfs and /repo/libxcp by path'),
               dict(name='sup', path='sup/sup.c', serves_properties=sorted(CLAIMS), kind_free_text='ptrace supervisor: trace, clamp, inject, kill, hold')],
      checks=[], not_applicable=[],
      notes='fix: commits in /repo (unguarded repairs of genuine defects, see KNOWN_FINDINGS.json): ' + '; '.join(c[:60] for c in commits if c))
    for pid in ALL:
        if pid in CLAIMS:
            c = CLAIMS[pid]
            m['checks'].append(dict(property_id=pid, quick_cmd=f'./check {pid} --tier quick', thorough_cmd=f'./check {pid} --tier thorough',
                                    evidence_file=f'/verif/evidence/{pid}.json', replay_cmd_template=f'./check {pid} --replay {{path}}', engine='lean-model',
                                    level_claimed=dict(category='proof', text=c['text'], design_ref=c['ref']), level_note=c['note'], technique=c['tech']))
        else:
            m['not_applicable'].append(dict(property_id=pid, reason=PENDING))
    json.dump(m, open(V + '/MANIFEST.json', 'w'), indent=1, ensure_ascii=False)

main()
