#!/usr/bin/env python3
"""Confirm a candidate seeded change independently, in a scratch worktree, and keep it under /verif/seeded/.
usage: verify_seeded.py /tmp/seeded-out/C01/a [...]
For each candidate: clean scratch worktree of /repo HEAD → unchanged binary; apply patch → builds? suite's 126
stable tests pass? demo exits 1 with the changed binary and 0 with the unchanged one?  Only then copied."""
import json, os, shutil, subprocess, sys, time
WT = os.environ.get('VERIFY_WT', '/tmp/wt-verify')
TAG = os.path.basename(WT)
ENV = dict(os.environ, CARGO_NET_OFFLINE='true', RUST_BACKTRACE='0')


def sh(cmd, **kw):
    p = subprocess.run(cmd, shell=isinstance(cmd, str), stdout=subprocess.PIPE, stderr=subprocess.STDOUT, text=True, env=ENV, **kw)
    return p.returncode, p.stdout


def ensure_wt():
    if not os.path.isdir(WT):
        sh(f'git -C /repo worktree add -q --detach {WT} HEAD')
    sh(f'git -C {WT} checkout -q --detach $(git -C /repo rev-parse HEAD) && git -C {WT} checkout -- . && git -C {WT} clean -fdq -e target')


def main():
    ensure_wt()
    rc, out = sh('cargo build --offline --bin xcp', cwd=WT)
    assert rc == 0, out[-2000:]
    shutil.copy(WT + '/target/debug/xcp', f'/tmp/xcp-orig-{TAG}')
    for cand in sys.argv[1:]:
        cand = cand.rstrip('/')
        pid, x = cand.split('/')[-2], cand.split('/')[-1]
        name = f'{pid}-{x}'
        res = dict(candidate=cand, when=time.strftime('%Y-%m-%d %H:%M'))
        if not all(os.path.exists(f'{cand}/{f}') for f in ('patch.diff', 'demo.sh', 'meta.json')):
            print(name, 'INCOMPLETE'); continue
        ensure_wt()
        rc, out = sh(f'git -C {WT} apply {cand}/patch.diff')
        res['applies'] = rc == 0
        if rc:
            print(name, 'patch does not apply', out[-300:]); continue
        rc, out = sh('cargo build --offline --bin xcp', cwd=WT)
        res['compiles'] = rc == 0
        if rc:
            print(name, 'does not compile'); continue
        rc, out = sh(f'/tmp/seeded-tools/baseline.sh {WT}', timeout=1800)
        res['suite'] = out.strip().split('\n')[-1]
        res['suite_passes'] = rc == 0
        shutil.copy(WT + '/target/debug/xcp', f'/tmp/xcp-changed-{TAG}')
        d1, o1 = sh(['bash', f'{cand}/demo.sh', f'/tmp/xcp-changed-{TAG}'], timeout=900, cwd=cand)
        d0, o0 = sh(['bash', f'{cand}/demo.sh', f'/tmp/xcp-orig-{TAG}'], timeout=900, cwd=cand)
        res['demo_changed_exit'], res['demo_original_exit'] = d1, d0
        res['demo_changed_tail'], res['demo_original_tail'] = o1[-400:], o0[-400:]
        ok = res['suite_passes'] and d1 == 1 and d0 == 0
        res['kept'] = ok
        print(name, 'KEPT' if ok else 'REJECTED', res['suite'], 'demo changed/original =', d1, d0)
        if ok:
            dst = f'/verif/seeded/{name}'
            shutil.rmtree(dst, ignore_errors=True)
            os.makedirs(dst)
            for f in os.listdir(cand):
                p = f'{cand}/{f}'
                if os.path.isfile(p) and os.path.getsize(p) < 200_000 and not f.startswith('xcp'):
                    shutil.copy(p, dst)
                elif os.path.isdir(p) and f not in ('target',):
                    shutil.copytree(p, f'{dst}/{f}', ignore=shutil.ignore_patterns('target', '*.o', 'xcp-*'))
            meta = json.load(open(f'{cand}/meta.json'))
            meta['confirmed_by_me'] = dict(worktree=WT, applies=True, compiles=True, suite=res['suite'], demo_exit_with_change=d1, demo_exit_without_change=d0,
                                           ran=f'git apply; cargo build --offline; /tmp/seeded-tools/baseline.sh (= the pinned nextest command); bash demo.sh <changed|original binary>', when=res['when'])
            json.dump(meta, open(f'{dst}/meta.json', 'w'), indent=1)
        else:
            os.makedirs('/verif/seeded/_rejected', exist_ok=True)
            json.dump(res, open(f'/verif/seeded/_rejected/{name}.json', 'w'), indent=1)
    ensure_wt()


main()
