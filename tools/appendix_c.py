#!/usr/bin/env python3
"""Regenerates Appendix C of DESIGN.md (what each quick check exercised on its last run) from evidence/*.json."""
import json, re
D = '/verif/DESIGN.md'
rows = []
tot_thm = 0
for i in range(1, 21):
    pid = f'C{i:02d}'
    e = json.load(open(f'/verif/evidence/{pid}.json'))
    c = e['coverage']
    tot_thm += len(c.get('theorems', []))
    rows.append(f"**{pid}** ({e['tier']}, seed {e['seed']}, {e['wall_s']:.0f} s): {len(c.get('theorems', []))} theorems, {c['evaluations']} evaluations, "
                f"{c['distinct_nontrivial']} distinct non-trivial, {c['traces_validated_against_impl']} model/implementation comparisons. {c['rule']}\n")
txt = ("## Appendix C. What each check exercised on its last committed run (generated from evidence/*.json by tools/appendix_c.py)\n\n"
       f"{tot_thm} property theorems in total.\n\n" + '\n'.join(rows))
s = open(D).read()
if '## Appendix C.' in s:
    s = s[:s.index('## Appendix C.')].rstrip('\n') + '\n\n' + txt
else:
    s = s.rstrip('\n') + '\n\n' + txt
open(D, 'w').write(s)
print('appendix C written,', tot_thm, 'theorems')
