#!/usr/bin/env python3
"""Run the registered quick checks against every kept seeded change: apply to /repo, run, undo straight afterwards.
usage: run_seeded.py [name ...]      (default: all of /verif/seeded/*)   → /verif/seeded/RESULTS.md"""
import json, os, re, subprocess, sys, time
S = '/verif/seeded'


def sh(cmd, **kw):
    p = subprocess.run(cmd, shell=True, stdout=subprocess.PIPE, stderr=subprocess.STDOUT, text=True, **kw)
    return p.returncode, p.stdout


def main():
    names = sys.argv[1:] or sorted(d for d in os.listdir(S) if os.path.isdir(f'{S}/{d}') and not d.startswith('_'))
    resfile = f'{S}/results.json'
    results = json.load(open(resfile)) if os.path.exists(resfile) else {}
    assert sh('git -C /repo status --porcelain')[1].strip() == '', '/repo not clean'
    for n in names:
        meta = json.load(open(f'{S}/{n}/meta.json'))
        pid = meta.get('property', n.split('-')[0])
        extra = meta.get('also_check', [])
        rc, out = sh(f'git -C /repo apply {S}/{n}/patch.diff')
        if rc:
            results[n] = dict(error='patch does not apply: ' + out[-200:]); continue
        entry = dict(property=pid, summary=meta.get('summary', ''), checks={})
        try:
            for c in [pid] + extra:
                t0 = time.time()
                rc, out = sh(f'cd /verif && ./check {c} --tier quick', timeout=3600)
                vio = [l for l in out.split('\n') if l.startswith('VIOLATION')]
                real = [l for l in vio if 'no-failing-input-found' not in l]
                why = [l[2:] for l in out.split('\n') if l.startswith('# ')][:3]
                entry['checks'][c] = dict(exit=rc, violations=len(vio), with_failing_input=len(real), first=why, wall=round(time.time() - t0, 1))
        finally:
            sh('git -C /repo checkout -- .')
        entry['caught'] = any(v['exit'] != 0 for v in entry['checks'].values())
        results[n] = entry
        print(n, 'CAUGHT' if entry['caught'] else 'MISSED', {c: (v['violations'], v['with_failing_input']) for c, v in entry['checks'].items()})
        json.dump(results, open(resfile, 'w'), indent=1)
    assert sh('git -C /repo status --porcelain')[1].strip() == ''
    with open(f'{S}/RESULTS.md', 'w') as fh:
        fh.write('# Seeded changes vs the registered quick checks\n\n| change | property | what it does | caught by | violations (with failing input) | first message |\n|---|---|---|---|---|---|\n')
        for n in sorted(results):
            e = results[n]
            if 'checks' not in e:
                fh.write(f'| {n} | | {e.get("error")} | | | |\n'); continue
            by = ', '.join(c for c, v in e['checks'].items() if v['exit'] != 0) or '**missed**'
            cnt = ', '.join(f"{c}: {v['violations']} ({v['with_failing_input']})" for c, v in e['checks'].items())
            first = next((v['first'][0] for v in e['checks'].values() if v['first']), '')
            fh.write(f"| {n} | {e['property']} | {e['summary'][:140].replace('|', '/')} | {by} | {cnt} | {first[:160].replace('|', '/')} |\n")


main()
