//! Library-API probe: runs `load_driver(..).copy(..)` the way a client would, with a recording updater,
//! the provided ChannelUpdater or the NoopUpdater, and prints the update stream and the return value.
//!
//!   probe_api [--driver parfile|parblock] [--workers N] [--block-size N] [--updater record|channel|noop]
//!             [--stall-us N] [--no-clobber] [--no-perms] [--no-timestamps] [--ownership] [--dereference]
//!             [--no-target-directory] [--fsync] [--gitignore] [--reflink auto|always|never]
//!             [--backup none|auto|numbered] -- SRC... DEST
use std::path::PathBuf;
use std::str::FromStr;
use std::sync::atomic::{AtomicU64, Ordering};
use std::sync::{Arc, Mutex};
use std::thread;
use std::time::Duration;

use libxcp::config::{Backup, Config, Reflink};
use libxcp::drivers::{load_driver, Drivers};
use libxcp::errors::Result;
use libxcp::feedback::{ChannelUpdater, NoopUpdater, StatusUpdate, StatusUpdater};

struct Recorder {
    seq: AtomicU64,
    log: Mutex<Vec<(u64, String)>>,
    stall_us: u64,
}

impl StatusUpdater for Recorder {
    fn send(&self, update: StatusUpdate) -> Result<()> {
        let line = match &update {
            StatusUpdate::Copied(n) => format!("copied {}", n),
            StatusUpdate::Size(n) => format!("size {}", n),
            StatusUpdate::Error(e) => format!("error {}", e.to_string().replace('\n', " ")),
        };
        if self.stall_us > 0 {
            if let StatusUpdate::Size(_) = update {
                // a client is free to be slow: stall before the update becomes visible
                thread::sleep(Duration::from_micros(self.stall_us));
            }
        }
        let n = self.seq.fetch_add(1, Ordering::SeqCst);
        self.log.lock().unwrap().push((n, line));
        Ok(())
    }
}

fn main() {
    let args: Vec<String> = std::env::args().skip(1).collect();
    let mut config = Config::default();
    config.workers = 4;
    let mut driver = Drivers::ParFile;
    let mut updater = "record".to_string();
    let mut stall_us = 0u64;
    let mut i = 0;
    while i < args.len() && args[i] != "--" {
        let a = args[i].as_str();
        let mut val = || { i += 1; args[i].clone() };
        match a {
            "--driver" => driver = Drivers::from_str(&val()).expect("driver"),
            "--workers" => config.workers = val().parse().unwrap(),
            "--block-size" => config.block_size = val().parse().unwrap(),
            "--updater" => updater = val(),
            "--stall-us" => stall_us = val().parse().unwrap(),
            "--reflink" => config.reflink = Reflink::from_str(&val()).expect("reflink"),
            "--backup" => config.backup = Backup::from_str(&val()).expect("backup"),
            "--no-clobber" => config.no_clobber = true,
            "--no-perms" => config.no_perms = true,
            "--no-timestamps" => config.no_timestamps = true,
            "--ownership" => config.ownership = true,
            "--dereference" => config.dereference = true,
            "--no-target-directory" => config.no_target_directory = true,
            "--fsync" => config.fsync = true,
            "--gitignore" => config.gitignore = true,
            _ => { eprintln!("bad option {}", a); std::process::exit(2); }
        }
        i += 1;
    }
    let mut paths: Vec<PathBuf> = args[i + 1..].iter().map(PathBuf::from).collect();
    let dest = paths.pop().expect("dest");
    let config = Arc::new(config);
    let drv = load_driver(driver, &config).expect("load_driver");

    match updater.as_str() {
        "record" => {
            let rec = Arc::new(Recorder { seq: AtomicU64::new(0), log: Mutex::new(vec![]), stall_us });
            let stats: Arc<dyn StatusUpdater> = rec.clone();
            let r = drv.copy(paths, &dest, stats);
            let mut log = rec.log.lock().unwrap().clone();
            log.sort();
            for (n, l) in log { println!("{} {}", n, l); }
            match r { Ok(()) => println!("result ok"), Err(e) => println!("result err {}", e.to_string().replace('\n', " ")) }
        }
        "channel" => {
            let cu = ChannelUpdater::new(&config);
            let rx = cu.rx_channel();
            let stats: Arc<dyn StatusUpdater> = Arc::new(cu);
            let handle = thread::spawn(move || drv.copy(paths, &dest, stats));
            let mut n = 0u64;
            // iterate until the channel closes; a stream that never ends is a hang (the supervisor's time limit)
            for u in rx {
                match u {
                    StatusUpdate::Copied(v) => println!("{} copied {}", n, v),
                    StatusUpdate::Size(v) => println!("{} size {}", n, v),
                    StatusUpdate::Error(e) => println!("{} error {}", n, e.to_string().replace('\n', " ")),
                }
                n += 1;
            }
            println!("closed");
            match handle.join().unwrap() { Ok(()) => println!("result ok"), Err(e) => println!("result err {}", e.to_string().replace('\n', " ")) }
        }
        "channel-late" => {
            // a client that calls copy() synchronously and reads the updates only AFTERWARDS: nothing in the API forbids it, the
            // provided updater must not make copy() wait for a reader
            let cu = ChannelUpdater::new(&config);
            let rx = cu.rx_channel();
            let stats: Arc<dyn StatusUpdater> = Arc::new(cu);
            let r = drv.copy(paths, &dest, stats);
            let mut n = 0u64;
            for u in rx {
                match u {
                    StatusUpdate::Copied(v) => println!("{} copied {}", n, v),
                    StatusUpdate::Size(v) => println!("{} size {}", n, v),
                    StatusUpdate::Error(e) => println!("{} error {}", n, e.to_string().replace('\n', " ")),
                }
                n += 1;
            }
            println!("closed");
            match r { Ok(()) => println!("result ok"), Err(e) => println!("result err {}", e.to_string().replace('\n', " ")) }
        }
        _ => {
            let stats: Arc<dyn StatusUpdater> = Arc::new(NoopUpdater);
            match drv.copy(paths, &dest, stats) { Ok(()) => println!("result ok"), Err(e) => println!("result err {}", e.to_string().replace('\n', " ")) }
        }
    }
}
