//! Line-protocol probe of libfs' public functions (same requests as the Lean driver).
use std::fs::File;
use std::io::{self, BufRead, Write};

use libfs::{map_extents, merge_extents, next_sparse_segments, probably_sparse, Extent};

fn parse_extent(s: &str) -> Option<Extent> {
    let (body, shared) = if let Some(b) = s.strip_suffix('s') {
        (b, true)
    } else if let Some(b) = s.strip_suffix('u') {
        (b, false)
    } else {
        (s, false)
    };
    let (a, b) = body.split_once('-')?;
    Some(Extent { start: a.parse().ok()?, end: b.parse().ok()?, shared })
}

fn show(e: &Extent) -> String {
    format!("{}-{}{}", e.start, e.end, if e.shared { "s" } else { "u" })
}

fn answer(line: &str) -> String {
    let toks: Vec<&str> = line.split_whitespace().collect();
    match toks.as_slice() {
        ["merge", rest @ ..] => {
            let es: Option<Vec<Extent>> = rest.iter().map(|s| parse_extent(s)).collect();
            match es {
                Some(es) => match std::panic::catch_unwind(|| merge_extents(es)) {
                    Ok(Ok(m)) => format!("ok {}", m.iter().map(show).collect::<Vec<_>>().join(" ")),
                    Ok(Err(e)) => format!("err {}", e),
                    Err(_) => "panic".to_string(),
                },
                None => "bad-op".to_string(),
            }
        }
        // real file: the extents libfs reports
        ["file-extents", path] => match File::open(path).map_err(|e| e.to_string()).and_then(|f| map_extents(&f).map_err(|e| e.to_string())) {
            Ok(Some(es)) => format!("ok {}", es.iter().map(show).collect::<Vec<_>>().join(" ")),
            Ok(None) => "unsupported".to_string(),
            Err(e) => format!("err {}", e),
        },
        // real file: the (data, hole) pairs of the copy_sparse loop
        ["file-segments", path] => {
            let r = (|| -> Result<String, String> {
                let f = File::open(path).map_err(|e| e.to_string())?;
                let out = File::open(path).map_err(|e| e.to_string())?;
                let len = f.metadata().map_err(|e| e.to_string())?.len();
                let mut pos = 0;
                let mut v = vec![];
                let mut guard = 0;
                while pos < len {
                    let (d, h) = next_sparse_segments(&f, &out, pos).map_err(|e| e.to_string())?;
                    v.push(format!("{}-{}", d, h));
                    pos = h;
                    guard += 1;
                    if guard > 1_000_000 { return Ok("spin".to_string()); }
                }
                Ok(format!("ok {}", v.join(" ")))
            })();
            r.unwrap_or_else(|e| format!("err {}", e))
        }
        ["file-sparse", path] => match File::open(path).map_err(|e| e.to_string()).and_then(|f| probably_sparse(&f).map_err(|e| e.to_string())) {
            Ok(b) => format!("ok {}", b),
            Err(e) => format!("err {}", e),
        },
        _ => "bad-op".to_string(),
    }
}

fn main() {
    std::panic::set_hook(Box::new(|_| {}));
    let stdin = io::stdin();
    let stdout = io::stdout();
    let mut out = io::BufWriter::new(stdout.lock());
    for line in stdin.lock().lines() {
        let line = line.unwrap();
        writeln!(out, "{}", answer(&line)).unwrap();
    }
    out.flush().unwrap();
}
