// scratch spike: ptrace supervisor (trace + clamp + error inject + kill-at)
#define _GNU_SOURCE
#include <errno.h>
#include <signal.h>
#include <stdio.h>
#include <stdlib.h>
#include <string.h>
#include <unistd.h>
#include <sys/ptrace.h>
#include <sys/syscall.h>
#include <sys/types.h>
#include <sys/uio.h>
#include <sys/user.h>
#include <sys/wait.h>

#define MAXT 4096
struct th { pid_t tid; int in_sys; long nr; int fake_err; long a[6]; } T[MAXT];
int nT = 0;
static struct th *get(pid_t tid) {
  for (int i = 0; i < nT; i++) if (T[i].tid == tid) return &T[i];
  T[nT].tid = tid; T[nT].in_sys = 0; T[nT].fake_err = 0; return &T[nT++];
}

// rules: "clamp <sysname> <nth> <len>" | "fail <sysname> <nth> <errno>" | "kill <nth-traced-syscall>"
struct rule { char kind; long nr; long nth; long val; } R[64];
int nR = 0; long count_by_nr[512]; long traced_total = 0;
static long sysnr(const char *s) {
#define S(n) if (!strcmp(s, #n)) return SYS_##n;
  S(copy_file_range) S(read) S(write) S(pread64) S(pwrite64) S(openat) S(ftruncate) S(ioctl) S(fchmod) S(fsync)
  S(utimensat) S(fchown) S(mkdir) S(symlink) S(rename) S(mknodat) S(unlink) S(close) S(lseek) S(fsetxattr) S(statx)
  S(newfstatat) S(readlink) S(getdents64) S(exit_group) S(mknod) S(symlinkat) S(renameat) S(renameat2) S(mkdirat) S(unlinkat)
  return -1;
}
static const char *sysname(long nr) {
#define N(n) if (nr == SYS_##n) return #n;
  N(copy_file_range) N(read) N(write) N(pread64) N(pwrite64) N(openat) N(ftruncate) N(ioctl) N(fchmod) N(fsync)
  N(utimensat) N(fchown) N(mkdir) N(symlink) N(rename) N(mknodat) N(unlink) N(close) N(lseek) N(fsetxattr) N(statx)
  N(newfstatat) N(readlink) N(getdents64) N(exit_group) N(mknod) N(symlinkat) N(renameat) N(renameat2) N(mkdirat) N(unlinkat)
  return NULL;
}
static void rdstr(pid_t tid, unsigned long addr, char *buf, size_t n) {
  buf[0] = 0; if (!addr) return;
  struct iovec l = { buf, n - 1 }, r = { (void *)addr, n - 1 };
  ssize_t k = process_vm_readv(tid, &l, 1, &r, 1, 0);
  if (k < 0) { // page boundary: fall back to word reads
    size_t i = 0; while (i < n - 1) { errno = 0; long w = ptrace(PTRACE_PEEKDATA, tid, addr + i, 0); if (errno) break; memcpy(buf + i, &w, 8); if (memchr(&w, 0, 8)) break; i += 8; }
    buf[n - 1] = 0; return;
  }
  buf[k] = 0;
}
int main(int argc, char **argv) {
  FILE *out = stdout; int ai = 1;
  while (ai < argc && strcmp(argv[ai], "--")) {
    if (!strcmp(argv[ai], "-o")) { out = fopen(argv[ai + 1], "w"); ai += 2; }
    else if (!strcmp(argv[ai], "clamp") || !strcmp(argv[ai], "fail")) {
      R[nR].kind = argv[ai][0]; R[nR].nr = sysnr(argv[ai + 1]); R[nR].nth = atol(argv[ai + 2]); R[nR].val = atol(argv[ai + 3]); nR++; ai += 4;
    } else if (!strcmp(argv[ai], "kill")) { R[nR].kind = 'k'; R[nR].nth = atol(argv[ai + 1]); nR++; ai += 2; }
    else { fprintf(stderr, "bad arg %s\n", argv[ai]); return 2; }
  }
  ai++;
  pid_t child = fork();
  if (child == 0) { ptrace(PTRACE_TRACEME, 0, 0, 0); raise(SIGSTOP); execvp(argv[ai], argv + ai); _exit(127); }
  int st; waitpid(child, &st, 0);
  ptrace(PTRACE_SETOPTIONS, child, 0, PTRACE_O_TRACESYSGOOD | PTRACE_O_TRACECLONE | PTRACE_O_TRACEFORK | PTRACE_O_TRACEVFORK | PTRACE_O_TRACEEXEC | PTRACE_O_EXITKILL);
  get(child); ptrace(PTRACE_SYSCALL, child, 0, 0);
  int exitcode = -1;
  for (;;) {
    pid_t tid = waitpid(-1, &st, __WALL);
    if (tid < 0) break;
    if (WIFEXITED(st) || WIFSIGNALED(st)) {
      if (tid == child) { exitcode = WIFEXITED(st) ? WEXITSTATUS(st) : 128 + WTERMSIG(st); }
      continue;
    }
    if (!WIFSTOPPED(st)) continue;
    int sig = WSTOPSIG(st); struct th *t = get(tid);
    if (sig == (SIGTRAP | 0x80)) {
      struct user_regs_struct r; ptrace(PTRACE_GETREGS, tid, 0, &r);
      if (!t->in_sys) { // entry
        t->in_sys = 1; t->nr = r.orig_rax; t->fake_err = 0;
        t->a[0] = r.rdi; t->a[1] = r.rsi; t->a[2] = r.rdx; t->a[3] = r.r10; t->a[4] = r.r8; t->a[5] = r.r9;
        if (t->nr >= 0 && t->nr < 512 && sysname(t->nr)) {
          long c = ++count_by_nr[t->nr]; traced_total++;
          for (int i = 0; i < nR; i++) {
            if (R[i].kind == 'k' && traced_total == R[i].nth) { fprintf(out, "{\"kill_before\":%ld,\"sys\":\"%s\"}\n", traced_total, sysname(t->nr)); fflush(out); kill(child, SIGKILL); }
            if (R[i].nr != t->nr || R[i].nth != c) continue;
            if (R[i].kind == 'c') { // clamp length argument
              if (t->nr == SYS_copy_file_range) { if ((long)r.r8 > R[i].val) r.r8 = R[i].val; }
              else { if ((long)r.rdx > R[i].val) r.rdx = R[i].val; }
              ptrace(PTRACE_SETREGS, tid, 0, &r);
            } else if (R[i].kind == 'f') { t->fake_err = R[i].val; r.orig_rax = -1; ptrace(PTRACE_SETREGS, tid, 0, &r); }
          }
        }
      } else { // exit
        t->in_sys = 0;
        if (t->fake_err) { r.rax = -(long)t->fake_err; ptrace(PTRACE_SETREGS, tid, 0, &r); }
        const char *nm = (t->nr >= 0 && t->nr < 512) ? sysname(t->nr) : NULL;
        if (nm) {
          char p[512] = "";
          if (t->nr == SYS_openat || t->nr == SYS_mknodat || t->nr == SYS_newfstatat || t->nr == SYS_statx || t->nr == SYS_mkdirat || t->nr == SYS_unlinkat) rdstr(tid, t->a[1], p, sizeof p);
          else if (t->nr == SYS_mkdir || t->nr == SYS_unlink || t->nr == SYS_readlink || t->nr == SYS_rename || t->nr == SYS_symlink || t->nr == SYS_mknod) rdstr(tid, t->a[0], p, sizeof p);
          fprintf(out, "{\"tid\":%d,\"sys\":\"%s\",\"a\":[%ld,%ld,%ld,%ld,%ld,%ld],\"ret\":%ld,\"path\":\"%s\"}\n", tid, nm, t->a[0], t->a[1], t->a[2], t->a[3], t->a[4], t->a[5], (long)r.rax, p);
        }
      }
      ptrace(PTRACE_SYSCALL, tid, 0, 0);
    } else if (sig == SIGTRAP && (st >> 16)) { // ptrace event (clone/exec)
      ptrace(PTRACE_SYSCALL, tid, 0, 0);
    } else if (sig == SIGSTOP && !t->in_sys && tid != child) { // new thread initial stop
      ptrace(PTRACE_SYSCALL, tid, 0, 0);
    } else { ptrace(PTRACE_SYSCALL, tid, 0, sig); }
  }
  fprintf(out, "{\"exit\":%d}\n", exitcode); fflush(out);
  return 0;
}
