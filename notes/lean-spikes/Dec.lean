/-! scratch spike (built OK): concrete witnesses evaluate by `decide`/`rfl` only if the model is structurally recursive -/
abbrev Name := List UInt8
inductive Node | file (c : List UInt8) | dir (es : List (Name × Node)) | link (t : List Name)

def lookup1 : List (Name × Node) → Name → Option Node
  | [], _ => none
  | (n, v) :: r, k => if n = k then some v else lookup1 r k

/-- one step per path component or link expansion; structural on fuel (a nested `let rec` calling the outer
    function compiles to well-founded recursion, and then `decide`/`rfl` get stuck) -/
def resolveAux (root : Node) : Nat → Node → List Name → Option Node
  | 0, _, _ => none
  | _+1, cur, [] => some cur
  | f+1, cur, c :: cs => match cur with
    | .dir es => match lookup1 es c with
      | some (.link t) => resolveAux root f root (t ++ cs)
      | some n => resolveAux root f n cs
      | none => none
    | _ => none
def resolve (root : Node) (fuel : Nat) (p : List Name) : Option Node := resolveAux root fuel root p

def fs0 : Node := .dir [([102], .file [1,2,3]), ([108], .link [[102]]), ([100], .dir [([103], .link [[108]])])]
def content : Option Node → List UInt8 | some (.file c) => c | _ => []

example : content (resolve fs0 10 [[100],[103]]) = [1,2,3] := by decide
example : content (resolve fs0 10 [[100],[103]]) = [1,2,3] := by rfl
theorem witness : ∃ p, content (resolve fs0 10 p) = [1,2,3] ∧ p ≠ [[102]] := ⟨[[108]], by decide⟩
#print axioms witness
