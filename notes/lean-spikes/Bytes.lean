/-! scratch spike (built OK, Lean 4.33 core only): byte-level write model -/
abbrev Byte := UInt8

/-- pwrite-like overwrite inside an already sized file (xcp pre-sizes the destination). -/
def writeAt (dst : List Byte) (off : Nat) (data : List Byte) : List Byte :=
  dst.take off ++ data ++ dst.drop (off + data.length)

theorem writeAt_length (dst : List Byte) (off : Nat) (data : List Byte)
    (h : off + data.length ≤ dst.length) : (writeAt dst off data).length = dst.length := by
  simp [writeAt]; omega

/-- pointwise characterisation -/
theorem writeAt_getElem? (dst : List Byte) (off : Nat) (data : List Byte) (i : Nat)
    (h : off + data.length ≤ dst.length) :
    (writeAt dst off data)[i]? =
      if off ≤ i ∧ i < off + data.length then data[i - off]? else dst[i]? := by
  unfold writeAt
  by_cases h1 : i < off
  · rw [List.append_assoc, List.getElem?_append_left (by simp; omega)]
    simp [h1]; omega
  · by_cases h2 : i < off + data.length
    · rw [List.append_assoc, List.getElem?_append_right (by simp; omega)]
      rw [List.getElem?_append_left (by simp; omega)]
      simp [Nat.min_eq_left (by omega : off ≤ dst.length)]
      have : off ≤ i := by omega
      simp [this]; omega
    · rw [List.getElem?_append_right (by simp; omega)]
      simp [Nat.min_eq_left (by omega : off ≤ dst.length)]
      have : ¬ (off ≤ i ∧ i < off + data.length) := by omega
      simp [this]
      congr 1; omega

/-- the copy of `n` bytes at `off` from src into dst -/
def copyRange (src dst : List Byte) (off n : Nat) : List Byte :=
  writeAt dst off ((src.drop off).take n)

theorem copyRange_comm (src dst : List Byte) (o1 n1 o2 n2 : Nat)
    (hl : dst.length = src.length) (h1 : o1 + n1 ≤ src.length) (h2 : o2 + n2 ≤ src.length)
    (hd : o1 + n1 ≤ o2 ∨ o2 + n2 ≤ o1) :
    copyRange src (copyRange src dst o1 n1) o2 n2 = copyRange src (copyRange src dst o2 n2) o1 n1 := by
  apply List.ext_getElem?
  intro i
  unfold copyRange
  have l1 : ((src.drop o1).take n1).length = n1 := by simp; omega
  have l2 : ((src.drop o2).take n2).length = n2 := by simp; omega
  rw [writeAt_getElem? _ _ _ _ (by rw [writeAt_length _ _ _ (by omega)]; omega)]
  rw [writeAt_getElem? _ _ _ _ (by omega)]
  rw [writeAt_getElem? _ _ _ _ (by rw [writeAt_length _ _ _ (by omega)]; omega)]
  rw [writeAt_getElem? _ _ _ _ (by omega)]
  simp only [l1, l2]
  split <;> split <;> first | rfl | omega
