import Sp.Blocks
/-! scratch spike: a block copied by a retry loop under an adversarial (legal) kernel is covered exactly;
    a single call per block (the unchanged parblock) is not. -/

/-- kernel oracle for one block: attempt number and requested size ↦ bytes moved -/
abbrev Oracle := Nat → Nat → Nat
def Legal (k : Oracle) : Prop := ∀ a req, 0 < req → 1 ≤ k a req ∧ k a req ≤ req

/-- `while copied < bytes { n = cfr(off+copied, bytes-copied); copied += n }` — the jobs actually performed -/
def retry (k : Oracle) : (fuel attempt off rem : Nat) → List (Nat × Nat)
  | 0, _, _, _ => []
  | f+1, a, off, rem => if rem = 0 then [] else
      let got := k a rem
      (off, got) :: retry k f (a+1) (off + got) (rem - got)

theorem retry_cover (k : Oracle) (hk : Legal k) :
    ∀ (fuel a off rem : Nat), rem ≤ fuel → ∀ i, covered (retry k fuel a off rem) i ↔ off ≤ i ∧ i < off + rem := by
  intro fuel
  induction fuel with
  | zero => intro a off rem h i; have : rem = 0 := by omega
            subst this; simp [retry, covered]
  | succ f ih =>
    intro a off rem h i
    unfold retry
    by_cases hr : rem = 0
    · subst hr; simp [covered]
    · simp only [hr, if_false]
      obtain ⟨g1, g2⟩ := hk a rem (by omega)
      generalize k a rem = got at g1 g2
      have := ih (a+1) (off + got) (rem - got) (by omega) i
      constructor
      · rintro ⟨j, hj, hc⟩
        rcases List.mem_cons.mp hj with rfl | hj
        · simp at hc; omega
        · have := this.mp ⟨j, hj, hc⟩; omega
      · intro hi
        by_cases c : i < off + got
        · exact ⟨(off, got), by simp, by simp; omega⟩
        · obtain ⟨j, hj, hc⟩ := this.mpr (by omega)
          exact ⟨j, by simp [hj], hc⟩

theorem retry_in_bounds (k : Oracle) (hk : Legal k) :
    ∀ (fuel a off rem : Nat), ∀ j ∈ retry k fuel a off rem, j.1 + j.2 ≤ off + rem := by
  intro fuel
  induction fuel with
  | zero => intro a off rem j hj; simp [retry] at hj
  | succ f ih =>
    intro a off rem j hj
    unfold retry at hj
    by_cases hr : rem = 0
    · simp [hr] at hj
    · simp only [hr, if_false] at hj
      obtain ⟨g1, g2⟩ := hk a rem (by omega)
      generalize k a rem = got at g1 g2 hj
      rcases List.mem_cons.mp hj with rfl | hj
      · simp; omega
      · have := ih (a+1) (off + got) (rem - got) j hj; omega

/-- unchanged parblock: ONE call per block. Two bytes, one block of two, kernel moves one byte: exit 0, wrong file. -/
theorem single_call_loses_data :
    ∃ (src : List Byte) (got : Nat), 1 ≤ got ∧ got ≤ 2 ∧
      runJobs src (List.replicate src.length 0) [(0, got)] ≠ src :=
  ⟨[7, 9], 1, by decide, by decide, by decide⟩

#print axioms retry_cover
#print axioms single_call_loses_data
