import Batteries.Data.List.Perm
/-! scratch spike (built OK): parblock dispatcher + bounded pool; descriptor bound from an invariant.
    The inductive step `PInv s → step s l = some s' → PInv s'` is left for the build phase. -/

abbrev Hid := Nat

structure St where
  files    : List Nat            -- block counts of files still in the (unbounded) file queue
  cur      : Option (Hid × Nat)  -- handle the dispatcher is queuing, blocks left to queue
  queue    : List Hid            -- bounded job queue (each job holds one Arc clone)
  running  : List Hid            -- jobs being executed by pool threads
  refs     : Hid → Nat           -- Arc strong count
  isOpen   : Hid → Bool
  next     : Hid
  cap      : Nat
  workers  : Nat

inductive Label | openNext | push | dropOwn | take | finish (i : Nat)

def occ (h : Hid) (s : St) : Nat :=
  s.queue.count h + s.running.count h + (match s.cur with | some (h', _) => if h' = h then 1 else 0 | none => 0)

def release (s : St) (h : Hid) : St :=
  let r := s.refs h - 1
  { s with refs := fun x => if x = h then r else s.refs x,
           isOpen := fun x => if x = h then (if r = 0 then false else s.isOpen x) else s.isOpen x }

def step (s : St) : Label → Option St
  | .openNext =>
    match s.cur, s.files with
    | none, b :: fs =>
      some { s with files := fs, cur := some (s.next, b), next := s.next + 1,
                    refs := fun x => if x = s.next then 1 else s.refs x,
                    isOpen := fun x => if x = s.next then true else s.isOpen x }
    | _, _ => none
  | .push =>
    match s.cur with
    | some (h, b+1) =>
      if s.queue.length < s.cap then
        some { s with cur := some (h, b), queue := s.queue ++ [h], refs := fun x => if x = h then s.refs x + 1 else s.refs x }
      else none          -- dispatcher blocks: bounded queue is full
    | _ => none
  | .dropOwn =>
    match s.cur with
    | some (h, 0) => some (release { s with cur := none } h)
    | _ => none
  | .take =>
    match s.queue with
    | h :: q => if s.running.length < s.workers then some { s with queue := q, running := h :: s.running } else none
    | [] => none
  | .finish i =>
    match s.running[i]? with
    | some h => some (release { s with running := s.running.eraseIdx i } h)
    | none => none

structure PInv (s : St) : Prop where
  refs_eq  : ∀ h, s.refs h = occ h s
  open_iff : ∀ h, s.isOpen h = true ↔ 0 < s.refs h
  fresh    : ∀ h, s.next ≤ h → occ h s = 0
  qcap     : s.queue.length ≤ s.cap
  rcap     : s.running.length ≤ s.workers

def holders (s : St) : List Hid := s.queue ++ s.running ++ (match s.cur with | some (h, _) => [h] | none => [])

theorem occ_pos_mem (s : St) (h : Hid) (hp : 0 < occ h s) : h ∈ holders s := by
  unfold occ at hp; unfold holders
  simp only [List.mem_append]
  by_cases h1 : 0 < s.queue.count h
  · exact Or.inl (Or.inl (List.count_pos_iff.mp h1))
  · by_cases h2 : 0 < s.running.count h
    · exact Or.inl (Or.inr (List.count_pos_iff.mp h2))
    · right
      cases hc : s.cur with
      | none => simp [hc] at hp; omega
      | some p =>
        obtain ⟨h', b⟩ := p
        simp [hc] at hp ⊢
        by_cases e : h' = h
        · exact e.symm
        · simp [e] at hp; omega

/-- the open handles are among the holders, so their number is bounded by cap + workers + 1 -/
theorem open_bound (s : St) (inv : PInv s) (l : List Hid) (hn : l.Nodup) (ho : ∀ h ∈ l, s.isOpen h = true) :
    l.length ≤ s.cap + s.workers + 1 := by
  have hsub : ∀ h ∈ l, h ∈ holders s := fun h hh =>
    occ_pos_mem s h (by rw [← inv.refs_eq]; exact (inv.open_iff h).mp (ho h hh))
  have h1 : l.length ≤ (holders s).length :=
    List.Subperm.length_le (List.subperm_of_subset hn hsub)
  have h2 : (holders s).length ≤ s.cap + s.workers + 1 := by
    unfold holders
    have := inv.qcap; have := inv.rcap
    cases s.cur <;> simp <;> omega
  omega
