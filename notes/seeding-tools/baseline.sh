#!/bin/bash
# usage: baseline.sh <worktree dir>   — runs the pinned test suite there; exit 0 iff all 126 stable tests pass
set -u
cd "$1" || exit 2
export CARGO_NET_OFFLINE=true RUST_BACKTRACE=0
out=$(mktemp /var/tmp/seed-baseline.XXXXXX)
cargo nextest run --workspace --no-fail-fast --tool-config-file pb:/w/lib/nextest.toml --profile pb --test-threads 8 --offline >"$out" 2>&1 || true
python3 - "$out" <<'PY'
import json,re,sys
base=json.load(open('/root/.vp/BASELINE.json'))
txt=open(sys.argv[1]).read()
failed=set()
for m in re.finditer(r'^\s+(FAIL|SIGSEGV|SIGABRT|TIMEOUT)\s+\[[^\]]*\]\s+\(\s*\d+/\d+\)\s+(\S+)\s+(\S+)',txt,re.M):
    failed.add(m.group(2)+'::'+m.group(3))
m=re.search(r'Summary \[[^\]]*\]\s+(\d+) tests run: (\d+) passed',txt)
if not m:
    print(txt[-3000:]); print('BASELINE: could not parse nextest output (build error?)'); sys.exit(2)
bad=[t for t in base['stable_pass'] if t in failed]
print(f"BASELINE: run={m.group(1)} passed={m.group(2)} stable_failing={len(bad)}")
for t in bad: print('  FAILING stable test:',t)
sys.exit(1 if bad or int(m.group(2))<len(base['stable_pass']) else 0)
PY
rc=$?
rm -f "$out"
exit $rc
