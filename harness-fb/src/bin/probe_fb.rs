//! Probe of libfs built without the Linux backend. One request per line:
//!   offset <src> <dst> <off> <bytes>   copy_file_offset
//!   bytes  <src> <dst> <pos> <bytes>   copy_file_bytes with both cursors at pos
//!   copyfile <src> <dst>               libfs::copy_file
//!   caps <src>                         probably_sparse / map_extents / reflink answers
use std::fs::{File, OpenOptions};
use std::io::{self, BufRead, Seek, SeekFrom, Write};

use libfs::{copy_file, copy_file_bytes, copy_file_offset, map_extents, probably_sparse, reflink};

fn answer(line: &str) -> String {
    let t: Vec<&str> = line.split_whitespace().collect();
    let r: Result<String, String> = (|| match t.as_slice() {
        ["offset", src, dst, off, bytes] => {
            let i = File::open(src).map_err(|e| e.to_string())?;
            let o = OpenOptions::new().write(true).open(dst).map_err(|e| e.to_string())?;
            copy_file_offset(&i, &o, bytes.parse().unwrap(), off.parse().unwrap()).map(|n| format!("ok {}", n)).map_err(|e| e.to_string())
        }
        ["bytes", src, dst, pos, bytes] => {
            let mut i = File::open(src).map_err(|e| e.to_string())?;
            let mut o = OpenOptions::new().write(true).open(dst).map_err(|e| e.to_string())?;
            let p: u64 = pos.parse().unwrap();
            i.seek(SeekFrom::Start(p)).map_err(|e| e.to_string())?;
            o.seek(SeekFrom::Start(p)).map_err(|e| e.to_string())?;
            copy_file_bytes(&i, &o, bytes.parse().unwrap()).map(|n| format!("ok {}", n)).map_err(|e| e.to_string())
        }
        ["copyfile", src, dst] => copy_file(src.as_ref(), dst.as_ref()).map(|n| format!("ok {}", n)).map_err(|e| e.to_string()),
        ["caps", src] => {
            let i = File::open(src).map_err(|e| e.to_string())?;
            let sp = probably_sparse(&i).map_err(|e| e.to_string())?;
            let ex = map_extents(&i).map_err(|e| e.to_string())?.is_some();
            let rl = reflink(&i, &i).map_err(|e| e.to_string())?;
            Ok(format!("ok sparse={} extents={} reflink={}", sp, ex, rl))
        }
        _ => Ok("bad-op".to_string()),
    })();
    match r { Ok(s) => s, Err(e) => format!("err {}", e.replace('\n', " ")) }
}

fn main() {
    let stdin = io::stdin();
    let stdout = io::stdout();
    let mut out = stdout.lock();
    for line in stdin.lock().lines() {
        writeln!(out, "{}", answer(&line.unwrap())).unwrap();
        out.flush().unwrap();
    }
}
