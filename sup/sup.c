// sup — ptrace supervisor for the xcp correspondence checks (x86_64 Linux).
//
//   sup [-o trace.jsonl] [-p plan.txt] -- cmd args...
//
// Traces the file-system system calls of a (multi-threaded) tracee as JSON lines, and on request
//   * lowers the length argument of chosen data-moving calls (the kernel then makes a genuine short transfer),
//   * makes chosen calls fail with a chosen errno (the call is not executed),
//   * emulates a successful FICLONE by a whole-file copy_file_range,
//   * kills the tracee before/after its k-th mutating call,
//   * perturbs the schedule by holding threads at system-call boundaries (random delays or priorities),
//   * stalls every call of one kind (slow workers), enforces a wall-clock limit, counts open descriptors.
//
// plan lines:
//   clamp SYS PATH OFF NTH LEN      PATH substring, =exact or *, OFF number or *, NTH 1-based among matching calls or *
//   fail  SYS PATH NTH ERRNO        ERRNO numeric          failo SYS PATH OFF NTH ERRNO  (at a given file offset)
//   killbefore K | killafter K      K-th mutating call (1-based)
//   cloneok
//   sched SEED MODE DEPTH           MODE delay|pct
//   stall SYS USEC | stallp SYS PATH USEC | stallo SYS PATH OFF USEC  (only calls at file offset OFF)
//   timeout MS
#define _GNU_SOURCE
#include <errno.h>
#include <fcntl.h>
#include <signal.h>
#include <stdint.h>
#include <stdio.h>
#include <stdlib.h>
#include <string.h>
#include <time.h>
#include <unistd.h>
#include <sys/ptrace.h>
#include <sys/resource.h>
#include <sys/syscall.h>
#include <sys/types.h>
#include <sys/uio.h>
#include <sys/user.h>
#include <sys/wait.h>

#define FICLONE_NR 0x40049409UL
#define FIEMAP_NR 0xC020660BUL

enum { A_NONE = 0, A_PATH0, A_PATH1, A_FD0, A_AT1, A_TWO_PATH, A_TWO_AT, A_SYMLINK, A_SYMLINKAT, A_CFR };

struct sysdef { long nr; const char *name; int shape; int mut; };
// mut: 1 = mutating, 2 = mutating if fd > 2 (write-like), 3 = open (mutating if flags create/trunc/write)
static struct sysdef SYS[] = {
  {SYS_openat, "openat", A_AT1, 3}, {SYS_open, "open", A_PATH0, 3}, {SYS_creat, "creat", A_PATH0, 1},
  {SYS_close, "close", A_FD0, 0},
  {SYS_read, "read", A_FD0, 0}, {SYS_write, "write", A_FD0, 2}, {SYS_pread64, "pread64", A_FD0, 0}, {SYS_pwrite64, "pwrite64", A_FD0, 2},
  {SYS_copy_file_range, "copy_file_range", A_CFR, 1}, {SYS_sendfile, "sendfile", A_FD0, 1},
  {SYS_ftruncate, "ftruncate", A_FD0, 1}, {SYS_truncate, "truncate", A_PATH0, 1}, {SYS_fallocate, "fallocate", A_FD0, 1},
  {SYS_ioctl, "ioctl", A_FD0, 0},
  {SYS_fchmod, "fchmod", A_FD0, 1}, {SYS_fchmodat, "fchmodat", A_AT1, 1}, {SYS_chmod, "chmod", A_PATH0, 1},
  {SYS_fsync, "fsync", A_FD0, 1}, {SYS_fdatasync, "fdatasync", A_FD0, 1},
  {SYS_utimensat, "utimensat", A_AT1, 1},
  {SYS_fchown, "fchown", A_FD0, 1}, {SYS_fchownat, "fchownat", A_AT1, 1}, {SYS_chown, "chown", A_PATH0, 1}, {SYS_lchown, "lchown", A_PATH0, 1},
  {SYS_mkdir, "mkdir", A_PATH0, 1}, {SYS_mkdirat, "mkdirat", A_AT1, 1},
  {SYS_symlink, "symlink", A_SYMLINK, 1}, {SYS_symlinkat, "symlinkat", A_SYMLINKAT, 1},
  {SYS_rename, "rename", A_TWO_PATH, 1}, {SYS_renameat, "renameat", A_TWO_AT, 1}, {SYS_renameat2, "renameat2", A_TWO_AT, 1},
  {SYS_link, "link", A_TWO_PATH, 1}, {SYS_linkat, "linkat", A_TWO_AT, 1},
  {SYS_mknod, "mknod", A_PATH0, 1}, {SYS_mknodat, "mknodat", A_AT1, 1},
  {SYS_unlink, "unlink", A_PATH0, 1}, {SYS_unlinkat, "unlinkat", A_AT1, 1}, {SYS_rmdir, "rmdir", A_PATH0, 1},
  {SYS_lseek, "lseek", A_FD0, 0},
  {SYS_fsetxattr, "fsetxattr", A_FD0, 1}, {SYS_setxattr, "setxattr", A_PATH0, 1}, {SYS_lsetxattr, "lsetxattr", A_PATH0, 1},
  {SYS_flistxattr, "flistxattr", A_FD0, 0}, {SYS_fgetxattr, "fgetxattr", A_FD0, 0},
  {SYS_statx, "statx", A_AT1, 0}, {SYS_newfstatat, "newfstatat", A_AT1, 0}, {SYS_fstat, "fstat", A_FD0, 0},
  {SYS_stat, "stat", A_PATH0, 0}, {SYS_lstat, "lstat", A_PATH0, 0},
  {SYS_readlink, "readlink", A_PATH0, 0}, {SYS_readlinkat, "readlinkat", A_AT1, 0},
  {SYS_getdents64, "getdents64", A_FD0, 0},
  {SYS_dup, "dup", A_FD0, 0}, {SYS_dup2, "dup2", A_FD0, 0}, {SYS_dup3, "dup3", A_FD0, 0}, {SYS_fcntl, "fcntl", A_FD0, 0},
  {SYS_umask, "umask", A_NONE, 0},
  {SYS_exit_group, "exit_group", A_NONE, 0},
  {-1, NULL, 0, 0}
};
static struct sysdef *bynr[512];
static struct sysdef *byname(const char *s) { for (int i = 0; SYS[i].name; i++) if (!strcmp(SYS[i].name, s)) return &SYS[i]; return NULL; }

#define MAXT 1024
struct th {
  pid_t tid; int in_sys; long nr; int fake_err; int cloneok; long a[6]; long orig_len; int clamped;
  long prio; uint64_t hold_until; int held; int alive; long seq_entry; long mutidx;
  char p0[600], p1[600], fdp[600], fdp2[600]; long off;
} T[MAXT];
static int nT = 0;
static struct th *get(pid_t tid) {
  for (int i = 0; i < nT; i++) if (T[i].tid == tid) return &T[i];
  if (nT >= MAXT) { fprintf(stderr, "sup: too many threads\n"); exit(3); }
  memset(&T[nT], 0, sizeof T[nT]); T[nT].tid = tid; T[nT].alive = 1; return &T[nT++];
}

struct rule { char kind; struct sysdef *sd; char path[256]; long off; long nth; long val; long hits; };
static struct rule R[256]; static int nR = 0;
static long kill_before = 0, kill_after = 0; static int clone_ok = 0;
static unsigned long sched_seed = 0; static int sched_mode = 0, sched_depth = 0; // 1 delay, 2 pct
static long timeout_ms = 120000;
static long mut_total = 0, seq = 0;
static FILE *out;
static pid_t child;

static uint64_t rng_state = 88172645463325252ULL;
static uint64_t rnd(void) { rng_state ^= rng_state << 13; rng_state ^= rng_state >> 7; rng_state ^= rng_state << 17; return rng_state; }
static uint64_t now_us(void) { struct timespec ts; clock_gettime(CLOCK_MONOTONIC, &ts); return (uint64_t)ts.tv_sec * 1000000 + ts.tv_nsec / 1000; }

// open descriptor accounting (one table: xcp is a single process whose threads share descriptors)
#define MAXFD 65536
static char fdopen_[MAXFD]; static int nopen = 0, peak = 0;
static void fd_add(long fd) { if (fd >= 0 && fd < MAXFD && !fdopen_[fd]) { fdopen_[fd] = 1; if (++nopen > peak) peak = nopen; } }
static void fd_del(long fd) { if (fd >= 0 && fd < MAXFD && fdopen_[fd]) { fdopen_[fd] = 0; nopen--; } }

static void rdstr(pid_t tid, unsigned long addr, char *buf, size_t n) {
  buf[0] = 0; if (!addr) return;
  size_t i = 0;
  while (i < n - 1) {
    // read up to the end of the page, then continue
    size_t chunk = 4096 - ((addr + i) & 4095); if (chunk > n - 1 - i) chunk = n - 1 - i;
    struct iovec l = { buf + i, chunk }, r = { (void *)(addr + i), chunk };
    ssize_t k = process_vm_readv(tid, &l, 1, &r, 1, 0);
    if (k <= 0) break;
    void *z = memchr(buf + i, 0, k);
    if (z) return;
    i += k;
  }
  buf[i] = 0;
}
static int rdmem(pid_t tid, unsigned long addr, void *buf, size_t n) {
  struct iovec l = { buf, n }, r = { (void *)addr, n };
  return process_vm_readv(tid, &l, 1, &r, 1, 0) == (ssize_t)n ? 0 : -1;
}
static void fdpath(long fd, char *buf, size_t n) {
  buf[0] = 0; if (fd < 0) return;
  char p[64]; snprintf(p, sizeof p, "/proc/%d/fd/%ld", child, fd);
  ssize_t k = readlink(p, buf, n - 1); if (k < 0) k = 0; buf[k] = 0;
}
static long fdpos(long fd) {
  char p[64], line[128]; snprintf(p, sizeof p, "/proc/%d/fdinfo/%ld", child, fd);
  FILE *f = fopen(p, "r"); if (!f) return -1; long pos = -1;
  while (fgets(line, sizeof line, f)) if (!strncmp(line, "pos:", 4)) { pos = atol(line + 4); break; }
  fclose(f); return pos;
}
static void jstr(FILE *f, const char *k, const char *s) {
  fprintf(f, ",\"%s\":\"", k);
  for (const unsigned char *p = (const unsigned char *)s; *p; p++) {
    if (*p == '"' || *p == '\\') fprintf(f, "\\%c", *p);
    else if (*p < 0x20 || *p >= 0x7f) fprintf(f, "\\u%04x", *p);   // raw bytes as \u00XX (latin-1 style); decoder maps back
    else fputc(*p, f);
  }
  fputc('"', f);
}

static int is_mut(struct th *t, struct sysdef *sd) {
  if (sd->mut == 1) return 1;
  if (sd->mut == 2) return t->a[0] > 2;
  if (sd->mut == 3) { long fl = sd->nr == SYS_openat ? t->a[2] : t->a[1]; return (fl & (O_WRONLY | O_RDWR | O_CREAT | O_TRUNC)) != 0; }
  if (sd->nr == SYS_ioctl) return (unsigned long)t->a[1] == FICLONE_NR;
  return 0;
}

static void load_plan(const char *file) {
  FILE *f = fopen(file, "r"); if (!f) { perror(file); exit(2); }
  char line[1024];
  while (fgets(line, sizeof line, f)) {
    char k[32] = "", s[64] = "", p[256] = "", o[32] = "", n[32] = "", v[32] = "";
    int c = sscanf(line, "%31s %63s %255s %31s %31s %31s", k, s, p, o, n, v);
    if (c < 1 || k[0] == '#') continue;
    if (!strcmp(k, "clamp") && c == 6) {
      struct rule *r = &R[nR++]; r->kind = 'c'; r->sd = byname(s); strcpy(r->path, p);
      r->off = !strcmp(o, "*") ? -1 : atol(o); r->nth = !strcmp(n, "*") ? -1 : atol(n); r->val = atol(v);
      if (!r->sd) { fprintf(stderr, "sup: unknown syscall %s\n", s); exit(2); }
    } else if (!strcmp(k, "failo") && c == 6) {       // failo SYS PATH OFF NTH ERRNO : fail the NTH call at file offset OFF
      struct rule *r = &R[nR++]; r->kind = 'f'; r->sd = byname(s); strcpy(r->path, p);
      r->off = !strcmp(o, "*") ? -1 : atol(o); r->nth = !strcmp(n, "*") ? -1 : atol(n); r->val = atol(v);
      if (!r->sd) { fprintf(stderr, "sup: unknown syscall %s\n", s); exit(2); }
    } else if (!strcmp(k, "fail") && c == 5) {
      struct rule *r = &R[nR++]; r->kind = 'f'; r->sd = byname(s); strcpy(r->path, p); r->off = -1;
      r->nth = !strcmp(o, "*") ? -1 : atol(o); r->val = atol(n);
      if (!r->sd) { fprintf(stderr, "sup: unknown syscall %s\n", s); exit(2); }
    } else if (!strcmp(k, "stallo") && c == 5) {      // stallo SYS PATH OFF USEC : stall only calls on PATH at file offset OFF
      struct rule *r = &R[nR++]; r->kind = 's'; r->sd = byname(s); strcpy(r->path, p); r->off = atol(o); r->nth = -1; r->val = atol(n);
      if (!r->sd) { fprintf(stderr, "sup: unknown syscall %s\n", s); exit(2); }
    } else if (!strcmp(k, "stallp") && c == 4) {      // stallp SYS PATH USEC : stall only calls on PATH
      struct rule *r = &R[nR++]; r->kind = 's'; r->sd = byname(s); strcpy(r->path, p); r->off = -1; r->nth = -1; r->val = atol(o);
      if (!r->sd) { fprintf(stderr, "sup: unknown syscall %s\n", s); exit(2); }
    } else if (!strcmp(k, "stall") && c == 3) {
      struct rule *r = &R[nR++]; r->kind = 's'; r->sd = byname(s); strcpy(r->path, "*"); r->off = -1; r->nth = -1; r->val = atol(p);
      if (!r->sd) { fprintf(stderr, "sup: unknown syscall %s\n", s); exit(2); }
    } else if (!strcmp(k, "killbefore")) kill_before = atol(s);
    else if (!strcmp(k, "killafter")) kill_after = atol(s);
    else if (!strcmp(k, "cloneok")) clone_ok = 1;
    else if (!strcmp(k, "sched") && c >= 4) { sched_seed = strtoul(s, 0, 10); sched_mode = !strcmp(p, "pct") ? 2 : !strcmp(p, "delay") ? 1 : 0; sched_depth = atoi(o); rng_state ^= sched_seed * 0x9E3779B97F4A7C15ULL + 1; for (int i = 0; i < 8; i++) rnd(); }
    else if (!strcmp(k, "timeout")) timeout_ms = atol(s);
    else { fprintf(stderr, "sup: bad plan line: %s", line); exit(2); }
  }
  fclose(f);
}

static int match_rule(struct rule *r, struct th *t, struct sysdef *sd) {
  if (r->sd != sd) return 0;
  if (sd->nr == SYS_ioctl && r->kind == 'f') {
    // "fail ioctl PATH NTH ERRNO" targets FICLONE unless PATH is "fiemap"
    unsigned long req = (unsigned long)t->a[1];
    if (!strcmp(r->path, "fiemap")) return req == FIEMAP_NR && (r->hits++, r->nth < 0 || r->hits == r->nth);
    if (req != FICLONE_NR) return 0;
  }
  if (r->path[0] == '=') {        // exact match of one of the path fields
    const char *w = r->path + 1;
    if (strcmp(t->p0, w) && strcmp(t->p1, w) && strcmp(t->fdp, w) && strcmp(t->fdp2, w)) return 0;
  } else if (strcmp(r->path, "*") && strcmp(r->path, "fiemap")) {
    if (!strstr(t->p0, r->path) && !strstr(t->p1, r->path) && !strstr(t->fdp, r->path) && !strstr(t->fdp2, r->path)) return 0;
  }
  if (r->off >= 0 && r->off != t->off) return 0;
  r->hits++;
  return r->nth < 0 || r->hits == r->nth;
}

static void kill_all(void) { kill(child, SIGKILL); }

int main(int argc, char **argv) {
  out = stdout; int ai = 1;
  for (int i = 0; SYS[i].name; i++) if (SYS[i].nr >= 0 && SYS[i].nr < 512) bynr[SYS[i].nr] = &SYS[i];
  while (ai < argc && strcmp(argv[ai], "--")) {
    if (!strcmp(argv[ai], "-o") && ai + 1 < argc) { out = fopen(argv[ai + 1], "w"); if (!out) { perror(argv[ai + 1]); return 2; } ai += 2; }
    else if (!strcmp(argv[ai], "-p") && ai + 1 < argc) { load_plan(argv[ai + 1]); ai += 2; }
    else { fprintf(stderr, "sup: bad arg %s\n", argv[ai]); return 2; }
  }
  if (ai >= argc - 1) { fprintf(stderr, "usage: sup [-o trace] [-p plan] -- cmd ...\n"); return 2; }
  ai++;
  child = fork();
  if (child == 0) {
    const char *nf = getenv("SUP_CHILD_NOFILE");       /* descriptor limit for the traced program only (sup keeps its own) */
    if (nf && atoi(nf) > 0) { struct rlimit rl = { (rlim_t)atoi(nf), (rlim_t)atoi(nf) }; setrlimit(RLIMIT_NOFILE, &rl); }
    ptrace(PTRACE_TRACEME, 0, 0, 0); raise(SIGSTOP); execvp(argv[ai], argv + ai); _exit(127);
  }
  int st; waitpid(child, &st, 0);
  ptrace(PTRACE_SETOPTIONS, child, 0, PTRACE_O_TRACESYSGOOD | PTRACE_O_TRACECLONE | PTRACE_O_TRACEFORK | PTRACE_O_TRACEVFORK | PTRACE_O_TRACEEXEC | PTRACE_O_EXITKILL);
  get(child)->prio = 1000; ptrace(PTRACE_SYSCALL, child, 0, 0);
  int exitcode = -1, exitsig = 0, timed_out = 0, killed_by_plan = 0;
  uint64_t t0 = now_us();
  long pct_changes[16]; for (int i = 0; i < 16; i++) pct_changes[i] = 20 + rnd() % 400;
  int nheld = 0;
  for (;;) {
    pid_t tid = waitpid(-1, &st, __WALL | (nheld ? WNOHANG : 0));
    uint64_t now = now_us();
    if (now - t0 > (uint64_t)timeout_ms * 1000 && !timed_out) { timed_out = 1; kill_all(); }
    if (tid == 0) { // nothing happened: release due holds
      int released = 0; uint64_t soonest = ~0ULL;
      for (int i = 0; i < nT; i++) if (T[i].held) {
        if (T[i].hold_until <= now) { T[i].held = 0; nheld--; ptrace(PTRACE_SYSCALL, T[i].tid, 0, 0); released = 1; }
        else if (T[i].hold_until < soonest) soonest = T[i].hold_until;
      }
      if (!released) { uint64_t w = soonest == ~0ULL ? 100 : soonest - now; if (w > 200) w = 200; usleep(w ? w : 1); }
      continue;
    }
    if (tid < 0) { if (errno == ECHILD) break; if (errno == EINTR) continue; break; }
    if (WIFEXITED(st) || WIFSIGNALED(st)) {
      struct th *t = get(tid); if (t->held) { t->held = 0; nheld--; } t->alive = 0;
      if (tid == child) { if (WIFEXITED(st)) exitcode = WEXITSTATUS(st); else { exitsig = WTERMSIG(st); exitcode = 128 + exitsig; } }
      continue;
    }
    if (!WIFSTOPPED(st)) continue;
    int sig = WSTOPSIG(st); struct th *t = get(tid);
    if (sig == (SIGTRAP | 0x80)) {
      struct user_regs_struct r; if (ptrace(PTRACE_GETREGS, tid, 0, &r) < 0) continue;
      if (!t->in_sys) { // ---------------------------------------------------------------- entry
        t->in_sys = 1; t->nr = r.orig_rax; t->fake_err = 0; t->cloneok = 0; t->clamped = 0; t->mutidx = 0;
        t->a[0] = r.rdi; t->a[1] = r.rsi; t->a[2] = r.rdx; t->a[3] = r.r10; t->a[4] = r.r8; t->a[5] = r.r9;
        struct sysdef *sd = (t->nr >= 0 && t->nr < 512) ? bynr[t->nr] : NULL;
        uint64_t hold = 0;
        if (sd) {
          t->p0[0] = t->p1[0] = t->fdp[0] = t->fdp2[0] = 0; t->off = -1;
          switch (sd->shape) {
            case A_PATH0: rdstr(tid, t->a[0], t->p0, sizeof t->p0); break;
            case A_AT1: rdstr(tid, t->a[1], t->p0, sizeof t->p0); if ((int)t->a[0] >= 0) fdpath((int)t->a[0], t->fdp, sizeof t->fdp); break;
            case A_TWO_PATH: rdstr(tid, t->a[0], t->p0, sizeof t->p0); rdstr(tid, t->a[1], t->p1, sizeof t->p1); break;
            case A_TWO_AT: rdstr(tid, t->a[1], t->p0, sizeof t->p0); rdstr(tid, t->a[3], t->p1, sizeof t->p1); break;
            case A_SYMLINK: rdstr(tid, t->a[0], t->p1, sizeof t->p1); rdstr(tid, t->a[1], t->p0, sizeof t->p0); break;   // p0 = link path, p1 = target text
            case A_SYMLINKAT: rdstr(tid, t->a[0], t->p1, sizeof t->p1); rdstr(tid, t->a[2], t->p0, sizeof t->p0); break;
            case A_FD0: if ((int)t->a[0] > 2) fdpath((int)t->a[0], t->fdp, sizeof t->fdp); break;
            case A_CFR: fdpath((int)t->a[0], t->fdp2, sizeof t->fdp2); fdpath((int)t->a[2], t->fdp, sizeof t->fdp); break; // fdp = out, fdp2 = in
          }
          if (sd->nr == SYS_copy_file_range) {
            uint64_t o; if (t->a[3] && !rdmem(tid, t->a[3], &o, 8)) t->off = (long)o; else t->off = fdpos((int)t->a[2]);
          } else if (sd->nr == SYS_pread64 || sd->nr == SYS_pwrite64) t->off = t->a[3];
          else if ((sd->nr == SYS_read || sd->nr == SYS_write) && (int)t->a[0] > 2) t->off = fdpos((int)t->a[0]);
          else if (sd->nr == SYS_ioctl && (unsigned long)t->a[1] == FICLONE_NR) fdpath((int)t->a[2], t->fdp2, sizeof t->fdp2);
          t->seq_entry = ++seq;
          if (is_mut(t, sd)) {
            t->mutidx = ++mut_total;
            if (kill_before && mut_total == kill_before) { fprintf(out, "{\"killed_before\":%ld,\"sys\":\"%s\"}\n", mut_total, sd->name); fflush(out); killed_by_plan = 1; kill_all(); continue; }
          }
          for (int i = 0; i < nR; i++) {
            if (!match_rule(&R[i], t, sd)) continue;
            if (R[i].kind == 'c') {
              long *lenp = sd->nr == SYS_copy_file_range ? (long *)&r.r8 : (long *)&r.rdx;
              if (*lenp > R[i].val) { t->orig_len = *lenp; t->clamped = 1; *lenp = R[i].val; ptrace(PTRACE_SETREGS, tid, 0, &r); }
            } else if (R[i].kind == 'f') { t->fake_err = R[i].val; r.orig_rax = -1; ptrace(PTRACE_SETREGS, tid, 0, &r); }
            else if (R[i].kind == 's') hold += R[i].val;
          }
          if (clone_ok && sd->nr == SYS_ioctl && (unsigned long)t->a[1] == FICLONE_NR && !t->fake_err) {
            // ioctl(out, FICLONE, in)  ==>  copy_file_range(in, NULL, out, NULL, 0x7ffff000, 0), reported as 0
            t->cloneok = 1; r.orig_rax = SYS_copy_file_range; r.rdi = t->a[2]; r.rsi = 0; r.rdx = t->a[0]; r.r10 = 0; r.r8 = 0x7ffff000; r.r9 = 0;
            ptrace(PTRACE_SETREGS, tid, 0, &r);
          }
          if (sched_mode == 1) { if (rnd() % 100 < 35) hold += rnd() % 1500; }
          else if (sched_mode == 2) {
            if (!t->prio) t->prio = 1 + rnd() % 997;
            for (int i = 0; i < sched_depth && i < 16; i++) if (seq == pct_changes[i]) t->prio = -i - 1;   // change point: lowest priority
            int rank = 0; for (int i = 0; i < nT; i++) if (T[i].alive && T[i].tid != tid && T[i].prio > t->prio) rank++;
            hold += (uint64_t)rank * 250;
          }
        }
        if (hold) { t->held = 1; t->hold_until = now + hold; nheld++; continue; }
      } else { // ------------------------------------------------------------------------- exit
        t->in_sys = 0;
        struct sysdef *sd = (t->nr >= 0 && t->nr < 512) ? bynr[t->nr] : NULL;
        long ret = (long)r.rax;
        if (t->fake_err) { ret = -(long)t->fake_err; r.rax = ret; ptrace(PTRACE_SETREGS, tid, 0, &r); }
        if (t->cloneok) { if (ret > 0) ret = 0; r.rax = ret; ptrace(PTRACE_SETREGS, tid, 0, &r); }
        if (sd) {
          if ((sd->nr == SYS_openat || sd->nr == SYS_open || sd->nr == SYS_creat) && ret >= 0) { fd_add(ret); fdpath(ret, t->fdp, sizeof t->fdp); }
          if ((sd->nr == SYS_dup || sd->nr == SYS_dup2 || sd->nr == SYS_dup3) && ret >= 0) fd_add(ret);
          if (sd->nr == SYS_fcntl && (t->a[1] == F_DUPFD || t->a[1] == F_DUPFD_CLOEXEC) && ret >= 0) fd_add(ret);
          if (sd->nr == SYS_close && ret == 0) fd_del(t->a[0]);
          unsigned long ioreq = (unsigned long)t->a[1];
          int other_clone = sd->nr == SYS_ioctl && (ioreq == 0x4020940dUL /* FICLONERANGE */ || ioreq == 0xc0189436UL /* FIDEDUPERANGE */);
          int skip = (sd->nr == SYS_ioctl && ioreq != FICLONE_NR && ioreq != FIEMAP_NR && !other_clone)
                  || ((sd->nr == SYS_write || sd->nr == SYS_read || sd->nr == SYS_close || sd->nr == SYS_fstat || sd->nr == SYS_fcntl) && (int)t->a[0] <= 2 && sd->nr != SYS_close);
          if (!skip) {
            fprintf(out, "{\"n\":%ld,\"x\":%ld,\"tid\":%d,\"sys\":\"%s\",\"a\":[%ld,%ld,%ld,%ld,%ld,%ld],\"ret\":%ld", t->seq_entry, ++seq, tid,
                    (sd->nr == SYS_ioctl ? (ioreq == FICLONE_NR ? "ficlone" : other_clone ? "ficlonerange" : "fiemap") : sd->name),
                    t->a[0], t->a[1], t->a[2], t->a[3], t->a[4], t->a[5], ret);
            if (t->p0[0]) jstr(out, "path", t->p0);
            if (t->p1[0]) jstr(out, "path2", t->p1);
            if (t->fdp[0]) jstr(out, "fdpath", t->fdp);
            if (t->fdp2[0]) jstr(out, "fdpath2", t->fdp2);
            if (t->off >= 0) fprintf(out, ",\"off\":%ld", t->off);
            if (t->mutidx) fprintf(out, ",\"mut\":%ld", t->mutidx);
            if (t->fake_err) fprintf(out, ",\"inj\":%d", t->fake_err);
            if (t->clamped) fprintf(out, ",\"clamp_from\":%ld", t->orig_len);
            if (t->cloneok) fprintf(out, ",\"cloneok\":1");
            fprintf(out, ",\"nopen\":%d}\n", nopen);
          }
          if (t->mutidx && kill_after && t->mutidx == kill_after) { fprintf(out, "{\"killed_after\":%ld,\"sys\":\"%s\"}\n", t->mutidx, sd->name); fflush(out); killed_by_plan = 1; kill_all(); continue; }
        }
      }
      ptrace(PTRACE_SYSCALL, tid, 0, 0);
    } else if (sig == SIGTRAP && (st >> 16)) { ptrace(PTRACE_SYSCALL, tid, 0, 0); }
    else if (sig == SIGSTOP && !t->in_sys && tid != child) { ptrace(PTRACE_SYSCALL, tid, 0, 0); }
    else { ptrace(PTRACE_SYSCALL, tid, 0, sig); }
  }
  fprintf(out, "{\"exit\":%d,\"sig\":%d,\"timeout\":%d,\"killed_by_plan\":%d,\"peak_fds\":%d,\"mut_total\":%ld,\"wall_us\":%lu}\n",
          exitcode, exitsig, timed_out, killed_by_plan, peak, mut_total, (unsigned long)(now_us() - t0));
  fflush(out);
  return 0;
}
