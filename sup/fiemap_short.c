/* LD_PRELOAD shim for the correspondence checks of C19: makes FS_IOC_FIEMAP answer with FEWER extents than asked for
 * (at most FIEMAP_SHORT_MAX per call, default 10) without being at the end of the map, which the FIEMAP ABI allows
 * (a file system may return any number up to fm_extent_count) although ext4 never does.  The FIEMAP_EXTENT_LAST flag is
 * cleared on what is kept when something was cut off.  Everything else is passed through unchanged. */
#define _GNU_SOURCE
#include <dlfcn.h>
#include <stdarg.h>
#include <stdint.h>
#include <stdlib.h>
#include <sys/ioctl.h>
#include <linux/fs.h>
#include <linux/fiemap.h>

int ioctl(int fd, unsigned long req, ...) {
  static int (*real)(int, unsigned long, ...) = 0;
  if (!real) real = (int (*)(int, unsigned long, ...))dlsym(RTLD_NEXT, "ioctl");
  va_list ap; va_start(ap, req); void *arg = va_arg(ap, void *); va_end(ap);
  if (req != FS_IOC_FIEMAP || !arg) return real(fd, req, arg);
  struct fiemap *fm = (struct fiemap *)arg;
  const char *m = getenv("FIEMAP_SHORT_MAX");
  uint32_t cap = m ? (uint32_t)atoi(m) : 10;
  uint32_t asked = fm->fm_extent_count;
  if (asked == 0 || cap == 0 || asked <= cap) return real(fd, req, arg);
  /* ask the kernel for one more than we pass on, to know whether something is cut off */
  fm->fm_extent_count = cap + 1 <= asked ? cap + 1 : asked;
  int rc = real(fd, req, arg);
  fm->fm_extent_count = asked;
  if (rc == 0 && fm->fm_mapped_extents > cap) {
    fm->fm_mapped_extents = cap;
    for (uint32_t i = 0; i < cap; i++) fm->fm_extents[i].fe_flags &= ~FIEMAP_EXTENT_LAST;
  }
  return rc;
}
